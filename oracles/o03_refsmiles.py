"""Reference grammar + reader for the SMILES subset property C03 enumerates (specification, not verified code).

Written from the OpenSMILES specification (http://opensmiles.org/opensmiles.html, sections 3.1-3.10), restricted to the subset
the property statement lists, WITHOUT looking at how chython tokenises.  Everything else is rejected (`Reject(reason)`), a few
things the specification leaves open are `Unspecified` (no verdict - the caller only applies the raises-contract there).

    line          ::= SP* smiles ( SP+ cx )? ( SP+ anything )*          -- trailing words are a title, ignored
    smiles        ::= molecule | role '>' role '>' role                  -- exactly two '>'; at least one atom overall
    role          ::= '' | component ( '.' component )*                  -- every component self-contained (own ring closures)
    molecule      ::= chain
    chain         ::= branched_atom ( ( bond? | '.' ) branched_atom )*
    branched_atom ::= atom ringbond* branch*
    ringbond      ::= bond? ( [1-9] | '%' [1-9] [0-9] )                 -- subset: closure 0 and %0n not in the language
    branch        ::= '(' ( bond | '.' )? chain ')'
    bond          ::= '-' | '=' | '#' | ':' | '/' | '\\' | '~'           -- '~' = dialect: the "special" bond (order 8) the writer emits
    atom          ::= organic | aromatic_organic | '[' bracket ']'
    organic       ::= 'B' | 'C' | 'N' | 'O' | 'P' | 'S' | 'F' | 'Cl' | 'Br' | 'I'
    aromatic_organic ::= 'b' | 'c' | 'n' | 'o' | 'p' | 's'
    bracket       ::= isotope? symbol chiral? hcount? charge? class?
    isotope       ::= [1-9] [0-9]{0,2}                                   -- must be a tabulated isotope (caller supplied predicate)
    symbol        ::= one of the 118 element symbols | 'b' 'c' 'n' 'o' 'p' 's' 'se' 'as' 'te'
    chiral        ::= '@' | '@@'                                          -- subset: no @TH/@AL/@SP/@TB/@OH classes
    hcount        ::= 'H' [1-4]?                                          -- subset; not on hydrogen itself ([HH] is outside)
    charge        ::= '+' | '-' | '++' | '--' | ('+'|'-') [1-4]           -- subset: |charge| <= 4
    class         ::= ':' [0-9]{1,4}                                      -- class 0 = no class
    cx            ::= '|' feature ( ',' feature )* '|'
    feature       ::= '^' [1-7] ':' index ( ',' index )*   |   'f:' group ( ',' group )*      group ::= index ( '.' index )+

Semantics: atoms in written order; a bond per adjacency; implicit bond (also under '/' and '\\') is aromatic iff both ends are
written aromatic, else single; ring-closure bond symbols may be given on either or both ends and must agree ('/' '\\' count as
single); a ring closure may not duplicate a bond or join an atom to itself; directional marks and '@'/'@@' are returned as
*parity data* (neighbour order as OpenSMILES 3.9 defines it: preceding atom, implicit H, ring-closure digits in the order
written, then branches/chain) for the caller to compare.
"""

SYMBOLS = ('H He Li Be B C N O F Ne Na Mg Al Si P S Cl Ar K Ca Sc Ti V Cr Mn Fe Co Ni Cu Zn Ga Ge As Se Br Kr Rb Sr Y Zr '
           'Nb Mo Tc Ru Rh Pd Ag Cd In Sn Sb Te I Xe Cs Ba La Ce Pr Nd Pm Sm Eu Gd Tb Dy Ho Er Tm Yb Lu Hf Ta W Re Os Ir '
           'Pt Au Hg Tl Pb Bi Po At Rn Fr Ra Ac Th Pa U Np Pu Am Cm Bk Cf Es Fm Md No Lr Rf Db Sg Bh Hs Mt Ds Rg Cn Nh Fl '
           'Mc Lv Ts Og').split()
ZNUM = {s: i + 1 for i, s in enumerate(SYMBOLS)}
_SYM = set(SYMBOLS)
ORGANIC = ('Cl', 'Br', 'B', 'C', 'N', 'O', 'P', 'S', 'F', 'I')
AROMATIC_ORGANIC = 'bcnops'
AROMATIC_BRACKET = ('se', 'as', 'te', 'b', 'c', 'n', 'o', 'p', 's')
BOND_ORDER = {'-': 1, '=': 2, '#': 3, ':': 4, '~': 8}
CHARGES = {'+': 1, '-': -1, '++': 2, '--': -2, '+1': 1, '+2': 2, '+3': 3, '+4': 4, '-1': -1, '-2': -2, '-3': -3, '-4': -4}
_DIG = '0123456789'


class Reject(Exception):
    """the string is outside the language; args[0] is a stable reason code"""


class Unspecified(Exception):
    """the reference has no verdict (construct the specification leaves open)"""


class RAtom:
    __slots__ = ('element', 'aromatic', 'isotope', 'charge', 'hcount', 'amap', 'bracket', 'chiral', 'order', 'preceded', 'nrc')

    def __init__(self, element, aromatic=False, isotope=None, charge=0, hcount=None, amap=0, bracket=False, chiral=None):
        self.element, self.aromatic, self.isotope, self.charge = element, aromatic, isotope, charge
        self.hcount, self.amap, self.bracket, self.chiral = hcount, amap, bracket, chiral
        self.order = []        # neighbour order for chirality: atom indices, 'H', or ('rc', digit) placeholders until closed
        self.preceded = False  # has a preceding (bonded, written-before) atom
        self.nrc = 0           # ring-closure digits written on the atom

    def view(self):
        return (self.element, self.aromatic, self.isotope, self.charge, self.hcount, self.amap, self.chiral)


class RMol:
    def __init__(self):
        self.atoms = []
        self.bonds = {}     # (i, j) i<j -> order
        self.dirs = {}      # (a, b) -> True if b is "up" seen from a (both perspectives stored when the bond is written in a chain)
        self.double_dir = set()  # bonds carrying two directional symbols (ring closure, both ends) - parity not evaluated
        self.binfo = {}     # (i, j) i<j -> (how the order was written: 'implicit' | 'directional' | 'explicit', ring closure?)

    def add_bond(self, i, j, o, kind='implicit', rc=False):
        if i == j:
            raise Reject('ring-closure-self')
        k = (i, j) if i < j else (j, i)
        if k in self.bonds:
            raise Reject('duplicate-bond')
        self.bonds[k] = o
        self.binfo[k] = (kind, rc)

    def components(self):
        adj = {i: set() for i in range(len(self.atoms))}
        for i, j in self.bonds:
            adj[i].add(j)
            adj[j].add(i)
        seen, out = set(), []
        for s in adj:
            if s in seen:
                continue
            c, st = {s}, [s]
            while st:
                x = st.pop()
                for y in adj[x]:
                    if y not in c:
                        c.add(y)
                        st.append(y)
            seen |= c
            out.append(frozenset(c))
        return out

    def neighbors(self, i):
        return [b if a == i else a for a, b in self.bonds if a == i or b == i]

    # ---- parity data ------------------------------------------------------------------------------------------------
    def tetrahedra(self):
        """[(atom, [neighbour indices in SMILES order, 'H' for the implicit hydrogen / lone pair slot], mark '@'|'@@')] for
        centres with 4 ordered positions (4 neighbours; 3 + one implicit H; 3 + lone pair)"""
        out = []
        for i, a in enumerate(self.atoms):
            if a.chiral is None:
                continue
            if any(isinstance(x, tuple) for x in a.order):
                continue
            nb = list(a.order)
            h = a.hcount or 0
            if h > 1:
                continue
            real = [x for x in nb if x != 'H']
            if len(real) == 4 and h == 0:
                out.append((i, nb, a.chiral))
            elif len(real) == 3 and h == 1:
                out.append((i, nb, a.chiral))
            elif len(real) == 3 and h == 0 and a.preceded and a.nrc == 0 and a.element in ('N', 'P', 'S', 'As', 'Se'):
                # lone pair takes the slot an implicit H would take, right after the preceding atom.  OpenSMILES does not say where
                # the lone pair goes for a centre without preceding atom or with ring-closure digits (toolkits differ): no parity there
                nb = list(real)
                nb.insert(1, 'H')
                out.append((i, nb, a.chiral))
        return out

    def cis_trans(self):
        """[(a, b, x, y, cis)] for double bonds a=b having a directional single bond a-x and b-y (first marked neighbour on
        each side; a consistent spelling gives the same answer for any choice)"""
        out = []
        for (a, b), o in self.bonds.items():
            if o != 2:
                continue
            xa = [(x, up) for (p, x), up in self.dirs.items() if p == a and x != b]
            yb = [(y, up) for (p, y), up in self.dirs.items() if p == b and y != a]
            if not xa or not yb:
                continue
            if any(frozenset((a, x)) in self.double_dir for x, _ in xa) or any(frozenset((b, y)) in self.double_dir for y, _ in yb):
                continue
            # consistency of the spelling on each end: two marked substituents of one end must point to different sides
            if len(xa) == 2 and xa[0][1] == xa[1][1] or len(yb) == 2 and yb[0][1] == yb[1][1]:
                continue
            (x, ux), (y, uy) = xa[0], yb[0]
            out.append((a, b, x, y, ux == uy))
        return out


class _P:
    """recursive-descent parser over characters for one `molecule` (dots allowed when dots=True)"""

    def __init__(self, s, isotope_ok, dots=True):
        self.s, self.i, self.n = s, 0, len(s)
        self.m = RMol()
        self.rc = {}  # digit -> (atom, symbol or None, slot index in atom.order)
        self.isotope_ok = isotope_ok
        self.dots = dots

    def peek(self):
        return self.s[self.i] if self.i < self.n else ''

    def parse(self):
        if not self.s:
            raise Reject('empty')
        self.chain(None, None)
        if self.i < self.n:
            c = self.peek()
            raise Reject('unbalanced-close' if c == ')' else self._bad(c))
        if self.rc:
            raise Reject('ring-closure-open')
        for a in self.m.atoms:
            assert not any(isinstance(x, tuple) for x in a.order)
        return self.m

    def _bad(self, c):
        if c in '-=#:/\\~':
            return 'bond-misplaced'
        if c == '.':
            return 'dot-misplaced'
        if c == '(':
            return 'branch-misplaced'
        if c in _DIG or c == '%':
            return 'ring-closure-misplaced'
        if c == ']':
            return 'bracket-close'
        return 'bad-char:' + (c if c.isprintable() and not c.isspace() else repr(c))

    # chain ::= branched_atom ( (bond? | dot) branched_atom )*
    def chain(self, prev, sym):
        """prev: atom the chain hangs on (None at start / after a dot); sym: bond symbol already read (branch prefix)"""
        first = True
        while True:
            a = self.atom()
            if a is None:
                if first:
                    c = self.peek()
                    if sym is not None:
                        raise Reject('bond-without-atom')
                    raise Reject('atom-expected-at-end' if c == '' else ('empty-branch' if c == ')' else 'atom-expected:' + self._bad(c)))
                raise AssertionError
            first = False
            idx = len(self.m.atoms)
            self.m.atoms.append(a)
            if prev is not None:
                self.bond(prev, idx, sym)
                a.preceded = True
                a.order.append(prev)
                self.m.atoms[prev].order.append(idx)
            if (a.hcount or 0) == 1:
                a.order.append('H')
            self.ringbonds(idx)
            self.branches(idx)
            # continuation?
            c = self.peek()
            if c == '.':
                if not self.dots:
                    raise Reject('dot-in-component')
                self.i += 1
                prev, sym = None, None
                if self.atom_ahead():
                    continue
                raise Reject('dot-without-atom')
            if c and c in '-=#:/\\~':
                self.i += 1
                prev, sym = idx, c
                if self.atom_ahead():
                    continue
                nx = self.peek()
                raise Reject('bond-at-end' if nx == '' else 'bond-without-atom')
            if self.atom_ahead():
                prev, sym = idx, None
                continue
            return

    def atom_ahead(self):
        c = self.peek()
        return bool(c) and (c == '[' or c in 'BCNOPSFI' or c in AROMATIC_ORGANIC)

    def bond(self, i, j, sym, ring=False):
        ai, aj = self.m.atoms[i], self.m.atoms[j]
        implicit = 4 if ai.aromatic and aj.aromatic else 1
        if sym is None:
            o = implicit
        elif sym in '/\\':
            o = implicit
            up = sym == '/'
            self.m.dirs[(i, j)] = up       # written i sym j: j is up from i when '/'
            self.m.dirs[(j, i)] = not up
        else:
            o = BOND_ORDER[sym]
        self.m.add_bond(i, j, o, 'implicit' if sym is None else ('directional' if sym in '/\\' else 'explicit'))

    def ringbonds(self, idx):
        a = self.m.atoms[idx]
        while True:
            c = self.peek()
            j = self.i
            sym = None
            if c and c in '-=#:/\\~':
                nx = self.s[j + 1] if j + 1 < self.n else ''
                if not (nx and (nx in _DIG or nx == '%')):
                    return
                sym = c
                j += 1
                c = nx
            if c and c in _DIG:
                if c == '0':
                    raise Reject('ring-closure-zero')
                d = int(c)
                j += 1
            elif c == '%':
                dd = self.s[j + 1:j + 3]
                if len(dd) != 2 or dd[0] not in _DIG or dd[1] not in _DIG:
                    raise Reject('ring-closure-percent')
                if dd[0] == '0':
                    raise Reject('ring-closure-zero')
                d = int(dd)
                j += 3
            else:
                return
            self.i = j
            a.nrc += 1
            if d in self.rc:
                p, psym, slot = self.rc.pop(d)
                if p == idx:
                    raise Reject('ring-closure-self')
                pa = self.m.atoms[p]
                # resolve the bond symbol
                kinds = [s for s in (psym, sym) if s is not None]
                implicit = 4 if pa.aromatic and a.aromatic else 1
                if not kinds:
                    o = implicit
                else:
                    # '/' and '\\' count as single when the other end spells '-' (module docstring; RDKit reads c-1ccccc/1 the same way)
                    dir_as = 1 if '-' in kinds else implicit
                    os_ = {(dir_as if s in '/\\' else BOND_ORDER[s]) for s in kinds}
                    if len(os_) != 1:
                        raise Reject('ring-closure-bond-mismatch')
                    o = os_.pop()
                    if any(s in '/\\' for s in kinds) and any(s not in '/\\' and s != '-' for s in kinds):
                        raise Reject('ring-closure-bond-mismatch')
                self.m.add_bond(p, idx, o, 'implicit' if not kinds else ('directional' if all(s in '/\\' for s in kinds) else 'explicit'), True)
                nd = 0
                if psym is not None and psym in '/\\':   # written on the opening atom: "p sym idx"
                    self.m.dirs[(p, idx)] = psym == '/'
                    nd += 1
                if sym is not None and sym in '/\\':     # written on the closing atom: "idx sym p"
                    self.m.dirs[(idx, p)] = sym == '/'
                    nd += 1
                if nd == 2:
                    self.m.double_dir.add(frozenset((p, idx)))
                elif nd == 1:  # the other perspective follows
                    if (p, idx) in self.m.dirs:
                        self.m.dirs[(idx, p)] = not self.m.dirs[(p, idx)]
                    else:
                        self.m.dirs[(p, idx)] = not self.m.dirs[(idx, p)]
                pa.order[slot] = idx
                a.order.append(p)
            else:
                self.rc[d] = (idx, sym, len(a.order))
                a.order.append(('rc', d))

    def branches(self, idx):
        while self.peek() == '(':
            self.i += 1
            c = self.peek()
            if c == ')':
                raise Reject('empty-branch')
            if c == '(':
                raise Reject('branch-misplaced')
            if c == '.':
                if not self.dots:
                    raise Reject('dot-in-component')
                self.i += 1
                self.chain(None, None)
            elif c and c in '-=#:/\\~':
                self.i += 1
                self.chain(idx, c)
            else:
                self.chain(idx, None)
            if self.peek() != ')':
                c = self.peek()
                raise Reject('branch-open' if c == '' else self._bad(c))
            self.i += 1
        c = self.peek()
        if c and c in '-=#:/\\~' and self.i + 1 < self.n:
            c = self.s[self.i + 1]
        if c and (c in _DIG or c == '%') and self.m.atoms[idx].order and self.s[self.i - 1] == ')':
            raise Reject('ring-closure-after-branch')

    # ---- atoms ---------------------------------------------------------------------------------------------------------
    def atom(self):
        c = self.peek()
        if not c:
            return None
        if c == '[':
            j = self.s.find(']', self.i)
            if j < 0:
                raise Reject('bracket-open')
            body = self.s[self.i + 1:j]
            self.i = j + 1
            return self.bracket(body)
        two = self.s[self.i:self.i + 2]
        if two in ('Cl', 'Br'):
            self.i += 2
            return RAtom(two)
        if c in 'BCNOPSFI':
            self.i += 1
            return RAtom(c)
        if c in AROMATIC_ORGANIC:
            self.i += 1
            return RAtom(c.upper(), aromatic=True)
        return None

    def bracket(self, b):
        if not b:
            raise Reject('bracket-empty')
        if '[' in b:
            raise Reject('bracket-nested')
        i, n = 0, len(b)
        iso = None
        j = i
        while j < n and b[j] in _DIG:
            j += 1
        if j > i:
            if b[i] == '0' or j - i > 3:
                raise Reject('bracket-isotope')
            iso = int(b[i:j])
            i = j
        # symbol: two-letter element first, then one-letter, then aromatic
        el = arom = None
        if len(b[i:i + 2]) == 2 and b[i:i + 2] in _SYM:
            el, arom, i = b[i:i + 2], False, i + 2
        elif b[i:i + 2] in ('se', 'as', 'te'):
            el, arom, i = b[i:i + 2].capitalize(), True, i + 2
        elif b[i:i + 1] in _SYM:
            el, arom, i = b[i], False, i + 1
        elif b[i:i + 1] and b[i] in 'bcnops':
            el, arom, i = b[i].upper(), True, i + 1
        else:
            raise Reject('bracket-symbol')
        chiral = None
        if b[i:i + 2] == '@@':
            chiral, i = '@@', i + 2
        elif b[i:i + 1] == '@':
            chiral, i = '@', i + 1
        h = 0
        if b[i:i + 1] == 'H':
            i += 1
            h = 1
            if i < n and b[i] in _DIG:
                if b[i] not in '1234':
                    raise Reject('bracket-hcount')
                h = int(b[i])
                i += 1
            if el == 'H':
                raise Reject('bracket-hydrogen-hcount')
        ch = 0
        if b[i:i + 1] and b[i] in '+-':
            j = i + 1
            if j < n and b[j] == b[i]:
                j += 1
            elif j < n and b[j] in _DIG:
                j += 1
            tok = b[i:j]
            if tok not in CHARGES:
                raise Reject('bracket-charge')
            ch = CHARGES[tok]
            i = j
        amap = 0
        if b[i:i + 1] == ':':
            j = i + 1
            while j < n and b[j] in _DIG:
                j += 1
            if j == i + 1 or j - i - 1 > 4:
                raise Reject('bracket-class')
            amap = int(b[i + 1:j])
            i = j
        if i != n:
            raise Reject('bracket-trailing')
        if iso is not None and self.isotope_ok is not None and not self.isotope_ok(el, iso):
            raise Reject('bracket-isotope-not-tabulated')
        return RAtom(el, arom, iso, ch, h, amap, True, chiral)


class RRecord:
    """what the line denotes: kind 'molecule' (mols = [RMol]) or 'reaction' (reactants, reagents, products: lists of RMol
    after CX fragment grouping); radicals: set of (role, molecule index, atom index)"""
    def __init__(self):
        self.kind = None
        self.mols = []
        self.reactants, self.reagents, self.products = [], [], []
        self.radicals = set()   # molecule: atom indices ; reaction: (flat molecule position in reactants+reagents+products, atom index)
        self.groups = None


def _parse_cx(cx):
    """-> (radical indices list, fragment groups list) ; Unspecified for anything but ^n: and f: features"""
    body = cx[1:-1]
    rad, groups = [], []
    if body == '':
        return rad, groups
    mode = None
    for item in body.split(','):
        if len(item) >= 3 and item[0] == '^' and item[1] in '1234567' and item[2] == ':':
            mode, item = 'r', item[3:]
        elif item.startswith('f:'):
            mode, item = 'f', item[2:]
        if mode == 'r':
            if not item or any(ch not in _DIG for ch in item):
                raise Unspecified('cx-feature')
            rad.append(int(item))
        elif mode == 'f':
            parts = item.split('.')
            if len(parts) < 2 or any(not p or any(ch not in _DIG for ch in p) for p in parts):
                raise Unspecified('cx-feature')
            groups.append([int(p) for p in parts])
        else:
            raise Unspecified('cx-feature')
    if len(set(rad)) != len(rad):
        raise Unspecified('cx-duplicate-radical')
    flat = [x for g in groups for x in g]
    if len(set(flat)) != len(flat):
        raise Unspecified('cx-duplicate-fragment')
    return rad, groups


def _join(mols):
    """disjoint union of component molecules into one RMol (atom order preserved)"""
    out = RMol()
    for m in mols:
        off = len(out.atoms)
        for a in m.atoms:
            a.order = [x if x == 'H' else x + off for x in a.order]
            out.atoms.append(a)
        for (i, j), o in m.bonds.items():
            out.bonds[(i + off, j + off)] = o
            out.binfo[(i + off, j + off)] = m.binfo[(i, j)]
        for (i, j), u in m.dirs.items():
            out.dirs[(i + off, j + off)] = u
        for fs in m.double_dir:
            out.double_dir.add(frozenset(x + off for x in fs))
    return out


def read(text, isotope_ok=None):
    """-> RRecord, or raises Reject(reason) / Unspecified(reason)"""
    words = text.split()
    if not words:
        raise Reject('empty')
    smi = words[0]
    cx = words[1] if len(words) > 1 and len(words[1]) >= 2 and words[1][0] == '|' and words[1][-1] == '|' else None
    rec = RRecord()
    if '>' in smi:
        parts = smi.split('>')
        if len(parts) != 3:
            raise Reject('reaction-arrows')
        rec.kind = 'reaction'
        roles = []
        for p in parts:
            ms = []
            if p != '':
                for comp in p.split('.'):
                    if comp == '':
                        raise Reject('reaction-empty-component')
                    ms.append(_P(comp, isotope_ok, dots=False).parse())
            roles.append(ms)
        if not any(roles):
            raise Reject('reaction-no-molecule')
        rad, groups = _parse_cx(cx) if cx else ([], [])
        flat = [m for r in roles for m in r]
        role_of = [k for k, r in enumerate(roles) for _ in r]
        # radicals: index over all atoms in written order
        offs, t = [], 0
        for m in flat:
            offs.append(t)
            t += len(m.atoms)
        for x in rad:
            if x >= t:
                raise Reject('cx-radical-index')
            k = max(i for i, o in enumerate(offs) if o <= x)
            rec.radicals.add((k, x - offs[k]))
        head = {}
        if groups:
            for g in groups:
                if any(x >= len(flat) for x in g):
                    raise Reject('cx-fragment-index')
                if len({role_of[x] for x in g}) != 1:
                    raise Unspecified('cx-fragment-across-roles')
            for g in groups:
                g = sorted(g)
                for x in g:
                    head[x] = g[0]
        # grouped molecules: position of the group = position of its first member
        new, newrole, rad2 = [], [], set()
        members = {}
        for i in range(len(flat)):
            members.setdefault(head.get(i, i), []).append(i)
        for h in sorted(members):
            ms = members[h]
            base = 0
            for i in ms:
                for (k, a) in rec.radicals:
                    if k == i:
                        rad2.add((len(new), base + a))
                base += len(flat[i].atoms)
            new.append(_join([flat[i] for i in ms]) if len(ms) > 1 else flat[h])
            newrole.append(role_of[h])
        rec.radicals = rad2
        rec.reactants = [m for m, r in zip(new, newrole) if r == 0]
        rec.reagents = [m for m, r in zip(new, newrole) if r == 1]
        rec.products = [m for m, r in zip(new, newrole) if r == 2]
        rec.groups = groups
        return rec
    rec.kind = 'molecule'
    m = _P(smi, isotope_ok, dots=True).parse()
    rad, groups = _parse_cx(cx) if cx else ([], [])
    for x in rad:
        if x >= len(m.atoms):
            raise Reject('cx-radical-index')
    if groups:
        # fragments = '.'-separated parts in written order
        nfrag = smi.count('.') + 1
        for g in groups:
            if any(x >= nfrag for x in g):
                raise Reject('cx-fragment-index')
    rec.radicals = set(rad)
    rec.groups = groups
    rec.mols = [m]
    return rec


def accepts(text, isotope_ok=None):
    try:
        read(text, isotope_ok)
        return True
    except Reject:
        return False
    except Unspecified:
        return None


# ---- generator of strings of the language (seeded) ---------------------------------------------------------------------
def generate(r, max_atoms=14, reaction=False, stereo=.25, brackets=.3, cx=.15):
    """random string of the language (by construction; the reader above is still the judge): returns text"""
    if reaction:
        def role(p_empty):
            if r.random() < p_empty:
                return ''
            return '.'.join(_gen_mol(r, r.randint(1, max(1, max_atoms // 3)), stereo, brackets, dots=False) for _ in range(r.randint(1, 3)))
        parts = [role(.15), role(.6), role(.2)]
        if not any(parts):
            parts[0] = 'C'
        s = '>'.join(parts)
        ncomp = sum(p.count('.') + 1 for p in parts if p)
        if r.random() < cx * 2 and ncomp >= 2:
            # group two neighbouring components of the same role
            idx, k = [], 0
            for p in parts:
                c = p.count('.') + 1 if p else 0
                if c >= 2:
                    idx.append((k, c))
                k += c
            if idx:
                k, c = r.choice(idx)
                a, b = sorted(r.sample(range(k, k + c), 2))   # any two components of one role (not only neighbours)
                s += f' |f:{a}.{b}|'
                if r.random() < .4:
                    nat = sum(1 for _ in _atoms_of(s.split()[0]))
                    s = s[:-1] + f',^1:{r.randrange(nat)}|'
        if ' |' not in s and r.random() < .3:   # radicals anywhere in the reaction, no groups
            nat = sum(1 for _ in _atoms_of(s))
            k = sorted(r.sample(range(nat), min(nat, r.randint(1, 2))))
            s += ' |^1:' + ','.join(map(str, k)) + '|'
        return s
    s = _gen_mol(r, r.randint(1, max_atoms), stereo, brackets, dots=True)
    if r.random() < cx:
        nat = sum(1 for _ in _atoms_of(s))
        feats = []
        if r.random() < .7:
            k = sorted(r.sample(range(nat), min(nat, r.randint(1, 2))))
            feats.append('^1:' + ','.join(map(str, k)))
        if '.' in s and r.random() < .6:
            feats.append('f:0.1')
        if feats:
            r.shuffle(feats)
            s += ' |' + ','.join(feats) + '|'
    return s


def _atoms_of(s):
    i = 0
    while i < len(s):
        c = s[i]
        if c == '[':
            j = s.index(']', i)
            yield s[i:j + 1]
            i = j + 1
        elif s[i:i + 2] in ('Cl', 'Br'):
            yield s[i:i + 2]
            i += 2
        elif c in 'BCNOPSFIbcnops':
            yield c
            i += 1
        else:
            i += 1


_GEN_ORG = ['C'] * 8 + ['N', 'N', 'O', 'O', 'S', 'P', 'F', 'Cl', 'Br', 'I', 'B']
_GEN_ARO = ['c'] * 6 + ['n', 'n', 'o', 's']
_GEN_BR = ['[NH4+]', '[O-]', '[N+]', '[NH3+]', '[13CH3]', '[13C]', '[2H]', '[Na+]', '[Fe+2]', '[Fe++]', '[Cu+2]', '[S-]', '[OH-]', '[nH]',
           '[n+]', '[C@H]', '[C@@H]', '[C@]', '[C@@]', '[N@+]', '[S@]', '[P@@]', '[C:1]', '[CH3:2]', '[N:3]', '[O-:4]', '[15NH2:12]', '[Si]',
           '[se]', '[Se]', '[CH2-]', '[C-]', '[O+]', '[N-]', '[B-]', '[Al+3]', '[Cl-]', '[Br-]', '[CH]', '[CH2]', '[C--]', '[Zn++]', '[18O]',
           '[14c]', '[cH]', '[CH3:1234]', '[N:999]', '[O:0012]', '[c-]', '[te]', '[as]', '[H]', '[H+]', '[3H]', '[U+4]', '[Pt-2]', '[NH2:0]', '[C@@H:7]', '[13C@H]', '[Sn-4]']
_GEN_BOND = ['', '', '', '', '', '-', '=', '=', '#', '/', '\\', ':', '~']


def _gen_mol(r, natoms, stereo, brackets, dots):
    out = []
    open_rc = []      # digits open (with the atom ordinal that opened them)
    state = {'n': 0}

    def atom(aromatic_ctx):
        x = r.random()
        if x < brackets:
            a = r.choice(_GEN_BR)
            if '@' in a and r.random() > 4 * stereo:
                a = a.replace('@@', '').replace('@', '')
        elif aromatic_ctx:
            a = r.choice(_GEN_ARO)
        else:
            a = r.choice(_GEN_ORG)
        state['n'] += 1
        return a

    def rcd(d):
        return str(d) if d < 10 else f'%{d}'

    def chain(budget, depth, aromatic_ctx):
        first = True
        while budget > 0:
            if not first:
                x = r.random()
                if dots and x < .06:
                    out.append('.')
                else:
                    b = r.choice(_GEN_BOND)
                    out.append(b)
            first = False
            out.append(atom(aromatic_ctx))
            me = state['n']
            budget -= 1
            # ring bonds
            for _ in range(2):
                x = r.random()
                if x < .12 and len(open_rc) < 4:
                    used = {o[0] for o in open_rc}
                    cands = [d for d in range(1, 10) if d not in used]
                    if cands and r.random() < .85:
                        d = r.choice(cands)
                    else:
                        d = r.choice([d for d in range(10, 100) if d not in used])
                    sym = r.choice(['', '', '', '=', '/', '-']) if r.random() < .2 else ''
                    out.append(sym + rcd(d))
                    open_rc.append((d, me, sym))
                elif x < .30 and open_rc:
                    k = r.randrange(len(open_rc))
                    d, opener, sym = open_rc[k]
                    if me - opener >= 2:
                        open_rc.pop(k)
                        cs = ''
                        if r.random() < .1:
                            cs = sym if sym else r.choice(['', '-', '\\'])
                        out.append(cs + rcd(d))
            # branches
            nb = 0
            while budget > 1 and depth < 3 and r.random() < .22 and nb < 2:
                nb += 1
                take = r.randint(1, max(1, budget // 2))
                out.append('(')
                x = r.random()
                if x < .25:
                    out.append(r.choice(['=', '-', '/', '\\', '#']))
                elif dots and x < .28:
                    out.append('.')
                before = state['n']
                chain(take, depth + 1, aromatic_ctx if r.random() < .8 else not aromatic_ctx)
                out.append(')')
                budget -= state['n'] - before
            if r.random() < .1:
                aromatic_ctx = not aromatic_ctx
        return

    chain(natoms, 0, r.random() < .3)
    s = ''.join(out)
    # close whatever ring closures are still open by appending atoms
    for d, opener, sym in open_rc:
        s += 'C' + 'C' + rcd(d)
    return s
