"""Independent predicate for one input class of C09: how many PENDING candidates does the depth-first search of the matcher hold at its peak?

Both matchers run the same search: every molecule atom of the scope that matches the first query atom is pushed; the top candidate is popped
and, unless it completes a mapping, every admissible neighbour (right bond, right atom, not mapped yet, exactly the query's ring closures) of the
molecule atom the next query atom hangs on is pushed.  The compiled generator keeps the pending candidates in two C arrays of
2 * (atoms of the molecule) entries; the Python matcher keeps them in a deque.  `peak_pending` re-runs that search with the library's own
`==` of query atoms / bonds (the reference semantics of C07/C08) on plain lists and returns the largest number of pending candidates, so
`needs_more_than_2n` is a predicate of the (query, molecule, scope) input alone - it does not look at what either matcher returned.
"""
from collections import defaultdict


def linear_orders(q_atoms, q_bonds):
    """depth-first linearisation of the query per component: [(atom, parent or None)] in dict order (the order both matchers are given), and the
    ring closures {atom: [already placed neighbour, ...]}"""
    closures = defaultdict(list)
    comps, seen = [], set()
    for start in q_atoms:
        if start in seen:
            continue
        seen.add(start)
        order = [(start, None)]
        comps.append(order)
        stack = [(n, start) for n in reversed(list(q_bonds[start]))]
        while stack:
            front, back = stack.pop()
            if front in seen:
                continue
            order.append((front, back))
            for n in reversed(list(q_bonds[front])):
                if n != back:
                    if n not in seen:
                        stack.append((n, front))
                    else:
                        closures[front].append(n)
            seen.add(front)
    return comps, closures


def _peak(order, closures, q, m, scope):
    qa, qb, ma, mb = q._atoms, q._bonds, m._atoms, m._bonds
    size = len(order) - 1
    depth_of = {n: i for i, (n, _) in enumerate(order)}
    stack = [(n, 0) for n, a in ma.items() if n in scope and qa[order[0][0]] == a]
    peak = len(stack)
    path, used = [], {}
    while stack:
        n, depth = stack.pop()
        if depth == size:
            continue
        for x in path[depth:]:
            del used[x]
        del path[depth:]
        path.append(n)
        used[n] = order[depth][0]
        depth += 1
        s_n, back = order[depth]
        base = path[depth_of[back]]
        want = {path[depth_of[c]] for c in closures.get(s_n, ())}
        for o_n, o_bond in mb[base].items():
            if o_n in scope and o_n not in used and qb[s_n][back] == o_bond and qa[s_n] == ma[o_n]:
                ring = {x for x in mb[o_n] if x in used and x != base}
                if ring == want and all(qb[s_n][c] == mb[o_n][path[depth_of[c]]] for c in closures.get(s_n, ())):
                    stack.append((o_n, depth))
        peak = max(peak, len(stack))
    return peak


def peak_pending(q, m, searching_scope=None):
    """largest number of pending candidates over every (query component, molecule component within the scope) pair"""
    comps, closures = linear_orders(q._atoms, q._bonds)
    peak = 0
    for cand in m.connected_components:
        cand = set(cand)
        if searching_scope is not None:
            cand &= set(searching_scope)
        if not cand:
            continue
        for order in comps:
            peak = max(peak, _peak(order, closures, q, m, cand))
    return peak


def needs_more_than_2n(q, m, searching_scope=None):
    return peak_pending(q, m, searching_scope) > 2 * len(m)
