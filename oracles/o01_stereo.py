"""Reference judgement "same structure including configuration" (specification, not verified): exhaustive enumeration of the
constitutional isomorphisms (oracles/iso.py) and, for each, a label-by-label comparison of every tetrahedral, allene and cis/trans
element relative to the mapped neighbours.  Independent of the canonicaliser (`atoms_order`, `_chiral_morgan`, `__str__` are never
read); the only library code used is the stored-sign convention itself (`stereogenic_*` neighbour orders and the `_translate_*_sign`
table look-ups, which are the subject of C12's lemmas).

Exponential in the symmetry of the molecule - `limit` caps the number of isomorphisms tried; None = undecided.
"""
from oracles import iso


def labels(m):
    """(tetrahedral centres, allene centres, cis/trans terminal pairs) that carry a label"""
    st, sa = m.stereogenic_tetrahedrons, m.stereogenic_allenes
    tet = [n for n, a in m.atoms() if a.stereo is not None and n in st]
    al = [n for n, a in m.atoms() if a.stereo is not None and n in sa and n not in st]
    other = [n for n, a in m.atoms() if a.stereo is not None and n not in st and n not in sa]
    ct = []
    for (n, k) in m.stereogenic_cis_trans:
        i, j = m._stereo_cis_trans_centers[n]
        if m._bonds[i][j].stereo is not None:
            ct.append((n, k))
    nb = sum(b.stereo is not None for *_, b in m.bonds())
    return tet, al, ct, other, nb


def _same_config(m1, m2, f, l1):
    tet, al, ct, _, _ = l1
    a2 = m2._atoms
    for c in tet:
        if a2[f[c]].stereo is None:
            return False
        env = m1.stereogenic_tetrahedrons[c]
        try:
            if m1._translate_tetrahedron_sign(c, env) != m2._translate_tetrahedron_sign(f[c], tuple(f[x] for x in env)):
                return False
        except (KeyError, ValueError):
            return False
    for c in al:
        if a2[f[c]].stereo is None:
            return False
        n1, k1 = m1.stereogenic_allenes[c][:2]
        try:
            if m1._translate_allene_sign(c, n1, k1) != m2._translate_allene_sign(f[c], f[n1], f[k1]):
                return False
        except KeyError:
            return False
    for n, k in ct:
        n1, k1 = m1.stereogenic_cis_trans[(n, k)][:2]
        try:
            if m1._translate_cis_trans_sign(n, k, n1, k1) != m2._translate_cis_trans_sign(f[n], f[k], f[n1], f[k1]):
                return False
        except KeyError:
            return False
    return True


def stereo_isomorphic(m1, m2, limit=5000, hydrogens=True):
    """True / False / None (undecided: isomorphism budget exhausted or a label that is not on a stereogenic element)"""
    l1, l2 = labels(m1), labels(m2)
    if l1[3] or l2[3]:
        return None
    if (len(l1[0]), len(l1[1]), len(l1[2]), l1[4]) != (len(l2[0]), len(l2[1]), len(l2[2]), l2[4]):
        # different numbers of labelled elements: isomorphic incl. configuration is impossible
        return False
    n = 0
    for f in iso.isomorphisms(iso.graph_view(m1, hydrogens), iso.graph_view(m2, hydrogens), limit=limit):
        n += 1
        if _same_config(m1, m2, f, l1):
            return True
    if n >= limit:
        return None
    return False
