"""Domain filter shared by C20 (and the RDKit-written part of C11): the documented gaps of C01, predicates fixed in DESIGN.md §2 C01.

gap 1 - the molecule carries a stereo label on a centre (or double-bond / allene end) two of whose substituents lie in one orbit of
        the stereo-free attributed graph (constitutional symmetry oracle: oracles.iso.orbits, independent of atoms_order);
gap 2 - some 2-connected block of the stereo-free graph has cyclomatic number >= 3 and two distinct ring atoms of that block lie
        in one orbit (symmetric cages: canonical strings are not numbering-invariant there).
Molecules in a gap are still run and counted (gap_hits), never reported as violations."""
from oracles.iso import orbits


def _orbits(m):
    # hydrogens=True: implicit hydrogen counts are part of the constitution; None (unassigned) is a value of its own
    return orbits(m, hydrogens=True, limit=5000)


def stereo_sites(m):
    """(centre atom, list of substituent atoms) for every labelled tetrahedron, allene end and double-bond end"""
    atoms, bonds = m._atoms, m._bonds
    out = []
    for n, a in atoms.items():
        if a.stereo is None:
            continue
        t = m._stereo_allenes_terminals.get(n) if n in m.stereogenic_allenes else None
        if t:
            path = next(p for p in m.stereogenic_cumulenes if len(p) % 2 and p[len(p) // 2] == n)
            out.append((path[0], [x for x in bonds[path[0]] if x != path[1]]))
            out.append((path[-1], [x for x in bonds[path[-1]] if x != path[-2]]))
        else:
            out.append((n, list(bonds[n])))
    done = set()
    for path in m.stereogenic_cumulenes:
        if len(path) % 2:
            continue
        i, j = m._stereo_cis_trans_centers[path[0]]
        if bonds[i][j].stereo is None or path in done:
            continue
        done.add(path)
        out.append((path[0], [x for x in bonds[path[0]] if x != path[1]]))
        out.append((path[-1], [x for x in bonds[path[-1]] if x != path[-2]]))
    return out


def has_stereo(m):
    return any(a.stereo is not None for _, a in m.atoms()) or any(b.stereo is not None for *_, b in m.bonds())


def gap1(m, orb=None):
    sites = stereo_sites(m)
    if not sites:
        return False
    orb = orb or _orbits(m)
    for c, subs in sites:
        o = [orb[x] for x in subs]
        if len(set(o)) < len(o):
            return True
    return False


def gap2(m, orb=None):
    import networkx as nx
    g = nx.Graph()
    g.add_nodes_from(m)
    g.add_edges_from((a, b) for a, b, _ in m.bonds())
    orb = orb or _orbits(m)
    for block in nx.biconnected_components(g):
        if len(block) < 3:
            continue
        sub = g.subgraph(block)
        if sub.number_of_edges() - sub.number_of_nodes() + 1 >= 3:
            o = [orb[x] for x in block]
            if len(set(o)) < len(o):
                return True
    return False


def in_gap(m, cage=False):
    """gap 1 always; gap 2 only where a comparison of the library's canonical strings across different numberings is involved"""
    if not has_stereo(m) and not cage:
        return False
    orb = _orbits(m)
    return gap1(m, orb) or (cage and gap2(m, orb))
