"""C04 oracle: mass of one isotope from RDKit's periodic table (independent of the library's isotopes_masses tables)."""
_pt = None


def isotope_mass(z, isotope):
    global _pt
    if _pt is None:
        from rdkit import Chem
        _pt = Chem.GetPeriodicTable()
    w = _pt.GetMassForIsotope(z, isotope)
    if not w:
        raise RuntimeError(f'RDKit has no mass for isotope {isotope} of element {z}')   # harness domain error, not a violation
    return w
