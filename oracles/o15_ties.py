"""Independent domain predicate for C15 (specification, not verified): ties the canonical CGR string cannot break by atom classes.

`neighbour_ties(cgr)` is True when some atom of the condensed graph has two neighbours that lie in one orbit of the automorphism
group of the fully labelled condensed graph (atom label = element, isotope, both charges, both radical states; bond label = both
orders) but are reached through differently labelled bonds.  Example: benzene drawn aromatic on one side and as a Kekule ring on the
other - all six atoms are equivalent (rotation by two positions), each has one neighbour over a 4>1 and one over a 4>2 bond.
The orbits come from oracles.iso.isomorphisms (plain backtracking), never from chython's atoms_order.  Components with more than
`max_atoms` atoms are not analysed (answer False = the violation keeps its input-specific key)."""
from oracles import iso


def _components(atoms, adj):
    seen, out = set(), []
    for s in atoms:
        if s in seen:
            continue
        comp, q = [], [s]
        seen.add(s)
        while q:
            x = q.pop()
            comp.append(x)
            for y in adj[x]:
                if y not in seen:
                    seen.add(y)
                    q.append(y)
        out.append(comp)
    return out


def neighbour_ties(cgr, max_atoms=60, limit=5000):
    atoms = {n: (a.atomic_symbol, a.isotope, a.charge, a.p_charge, a.is_radical, a.p_is_radical) for n, a in cgr.atoms()}
    adj = {n: {} for n in atoms}
    for n, m, b in cgr.bonds():
        adj[n][m] = adj[m][n] = (b.order, b.p_order)
    for comp in _components(atoms, adj):
        if len(comp) > max_atoms or len(comp) < 3:
            continue
        if not any(len(set(adj[n].values())) > 1 for n in comp):     # no atom with two differently labelled bonds
            continue
        cs = set(comp)
        v = ({n: atoms[n] for n in comp}, {frozenset((n, m)): lab for n in comp for m, lab in adj[n].items() if m in cs})
        parent = {n: n for n in comp}

        def find(x):
            while parent[x] != x:
                parent[x] = parent[parent[x]]
                x = parent[x]
            return x
        for mp in iso.isomorphisms(v, v, limit=limit):
            for a, b in mp.items():
                ra, rb = find(a), find(b)
                if ra != rb:
                    parent[ra] = rb
        for n in comp:
            nb = list(adj[n].items())
            for i in range(len(nb)):
                for j in range(i + 1, len(nb)):
                    if nb[i][1] != nb[j][1] and find(nb[i][0]) == find(nb[j][0]):
                        return True
    return False
