"""Independent reference writer of the published pack layout (C10), written from the format text in the docstring of
MoleculeContainer.pack / ReactionContainer.pack only (never from the bit arithmetic of the .pyx sources):

  header  : 8 bit version | 12 bit atoms | 12 bit cis/trans records
  atom    : 12 bit number | 4 bit neighbours | 2 bit tetrahedron | 2 bit allene | 5 bit isotope | 7 bit element | 2 x half | 3 bit H | 4 bit charge+4 | 1 bit radical
  table   : flattened neighbour lists, 12 bit each
  orders  : 3 bit (order - 1) per bond in the order of first appearance in the table, zero padded to a byte (version 2);
            groups of five 3-bit orders behind one zero bit in 16 bit, zero padded (version 0; taken from the bit diagram
            '0 3 3 1 | 2 3 3' in _unpack_v0v2.pyx - no version-0 pack or text is shipped, used only to reach the version-0 reader)
  cis/tr. : 12+12 bit terminal atoms of the double-bond chain (earlier atom first) | 7 zero bits | sign, in the order of first appearance

The isotope reference is Element.mdl_isotope (the table the docstring points to), not the tables of the .pyx files.
Everything is built as a bit string; no shifting/masking code is shared with the implementation.  The 4200 published packs are
re-encoded by this writer on every run (checks/b10.py) - that validates this file against published bytes.
"""
import math
import struct


def half_trunc(x):
    """the documented conversion: truncation toward zero to half precision; magnitudes outside the half range and below half the smallest
    subnormal are written as zero"""
    if x == 0 or abs(x) >= 65536. or abs(x) < 2 ** -25:
        return 0.
    m, e = math.frexp(abs(x))
    q = 2. ** (max(e, -13) - 11)
    return math.copysign(math.floor(abs(x) / q) * q, x)


def half_bits(x):
    return ''.join(f'{b:08b}' for b in struct.pack('>e', half_trunc(x)))


def _terminal(bonds, cur, prev):
    while True:
        nxt = [x for x, b in bonds[cur].items() if b.order == 2 and x != prev]
        if len(nxt) == 1 and len(bonds[cur]) == 2:
            prev, cur = cur, nxt[0]
        else:
            return cur


def _bits(v, n):
    if not 0 <= v < 1 << n:
        raise OverflowError(f'{v} does not fit {n} bits (molecule outside the format limits)')
    return f'{v:0{n}b}'


def encode(mol, version=2):
    atoms, bonds = mol._atoms, mol._bonds
    index = {n: i for i, n in enumerate(atoms)}
    table, orders, records = [], [], []
    visited = set()
    for n in atoms:
        visited.add(n)
        for m, b in bonds[n].items():
            table.append(m)
            if m in visited:
                continue
            orders.append(b.order - 1)
            if b.stereo is not None:
                t1, t2 = _terminal(bonds, n, m), _terminal(bonds, m, n)
                if index[t2] < index[t1]:
                    t1, t2 = t2, t1
                records.append((t1, t2, b.stereo))
    out = [_bits(version, 8), _bits(len(atoms), 12), _bits(len(records), 12)]
    for n, a in atoms.items():
        ngb = bonds[n]
        if a.stereo is None:
            st = '0000'
        elif len(ngb) == 2 and all(b.order == 2 for b in ngb.values()):
            st = '0011' if a.stereo else '0010'
        else:
            st = '1100' if a.stereo else '1000'
        iso = 0 if a.isotope is None else a.isotope - a.mdl_isotope + 16
        if a.isotope is not None and not 1 <= iso <= 31:
            raise OverflowError('isotope outside the 5-bit window')
        h = 7 if a.implicit_hydrogens is None else a.implicit_hydrogens
        if a.implicit_hydrogens is not None and not 0 <= h <= 6:
            raise OverflowError('hydrogen count outside 0..6')
        out += [_bits(n, 12), _bits(len(ngb), 4), st, _bits(iso, 5), _bits(a.atomic_number, 7), half_bits(a.x), half_bits(a.y),
                _bits(h, 3), _bits(a.charge + 4, 4), '1' if a.is_radical else '0']
    out += [_bits(m, 12) for m in table]
    if version == 2:
        ob = ''.join(_bits(o, 3) for o in orders)
        ob += '0' * (-len(ob) % 8)
    elif version == 0:
        ob = ''
        for i in range(0, len(orders), 5):
            g = orders[i: i + 5]
            ob += '0' + ''.join(_bits(o, 3) for o in g) + '000' * (5 - len(g))
    else:
        raise ValueError(version)
    out.append(ob)
    for t1, t2, s in records:
        out += [_bits(t1, 12), _bits(t2, 12), '0000000', '1' if s else '0']
    s = ''.join(out)
    assert len(s) % 8 == 0
    return int(s, 2).to_bytes(len(s) // 8, 'big') if s else b''


def encode_reaction(reactants, reagents, products, version=2):
    return bytes((1, len(reactants), len(reagents), len(products))) + b''.join(encode(m, version) for x in (reactants, reagents, products) for m in x)


def sections(data):
    """split an uncompressed molecule pack into (header, atom block, table, orders, cis/trans) for diagnostics; layout text only"""
    na = int.from_bytes(data[1:3], 'big') >> 4
    nct = int.from_bytes(data[2:4], 'big') & 0xfff
    a0, a1 = 4, 4 + 9 * na
    nb = sum(data[a0 + 9 * i + 1] & 15 for i in range(na)) // 2
    t1 = a1 + 3 * nb
    o1 = t1 + ((3 * nb + 7) // 8 if data[0] == 2 else 2 * ((nb + 4) // 5))
    return data[:4], data[a0:a1], data[a1:t1], data[t1:o1], data[o1:o1 + 4 * nct]
