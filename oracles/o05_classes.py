"""C05 domain extension (coverage audit): input classes that the ring templates of o05_domain.py do not contain.

Every entry: (name, family, first spelling or None, Kekule spelling or None, options)
  first spelling  - aromatic SMILES, or a *mixed* spelling (one ring aromatic, one ring Kekule), or a mis-drawn aromatic ring
  Kekule spelling - the same molecule with localised bonds (None: no second spelling)
  options         - 'nordkit': RDKit is no oracle for this text (mis-drawn rings that the library documents as repaired, repair rules)

Only inputs that are molecules are listed: the Kekule spelling passes check_valence() as written and keeps its written hydrogen
counts (probed on the pinned tree).  Left out on purpose, with the reason:
  * ring radical cations / radical anions ([n+]1ccccc1 |^1:0|, [o+]1cccc1 |^1:0|, [s+].., [c+].., [c-].., [b-]..) and [b+] rings:
    their Kekule spelling is a valence error for the library, so they are no members of the domain;
  * [b-] ring atoms written without hydrogen that have no alternating structure at that hydrogen count (c1o[b-]oc1,
    c1cc2cccc3c2[b-]1cc3), P at a ring fusion whose only alternating structure needs pentavalent P (c1cc2cccp2c1): not molecules;
  * repair rule 6 (O=[n+]1[c-]cccc1): the repair neutralises the carbanion, i.e. changes the formula by design;
  * tellurium / arsenic rings: outside the element list of the statement.
"""

CLASSES = [
    # --- radicals (CXSMILES radical block); the statement names radicals among the preserved attributes
    ('phenyl radical', 'radical', '[c]1ccccc1 |^1:0|', '[C]1=CC=CC=C1 |^1:0|'),
    ('2-pyridyl radical', 'radical', '[c]1ncccc1 |^1:0|', '[C]1=NC=CC=C1 |^1:0|'),
    ('pyrrolyl radical', 'radical', '[n]1cccc1 |^1:0|', '[N]1C=CC=C1 |^1:0|'),
    ('imidazolyl radical', 'radical', '[n]1cncc1 |^1:0|', '[N]1C=NC=C1 |^1:0|'),
    ('carbazolyl radical', 'radical', '[n]1c2ccccc2c2ccccc12 |^1:0|', '[N]1C2=CC=CC=C2C2=CC=CC=C12 |^1:0|'),
    ('phospholyl radical', 'radical', '[p]1cccc1 |^1:0|', '[P]1C=CC=C1 |^1:0|'),
    ('dioxaborolyl radical', 'radical', 'c1o[b]oc1 |^1:2|', 'C=1O[B]OC=1 |^1:2|'),
    ('S-methylthiophene radical', 'radical', 'C[s]1cccc1 |^1:1|', 'C[S]1C=CC=C1 |^1:1|'),
    ('benzyl radical', 'radical', '[CH2]c1ccccc1 |^1:0|', '[CH2]C1=CC=CC=C1 |^1:0|'),
    ('4-picolyl radical', 'radical', '[CH2]c1ccncc1 |^1:0|', '[CH2]C1=CC=NC=C1 |^1:0|'),
    ('phenoxyl radical', 'radical', '[O]c1ccccc1 |^1:0|', '[O]C1=CC=CC=C1 |^1:0|'),
    ('semiquinone radical anion', 'radical', '[O]c1ccc([O-])cc1 |^1:0|', '[O]C1=CC=C([O-])C=C1 |^1:0|'),
    ('indol-3-ylmethyl radical', 'radical', '[CH2]c1c[nH]c2ccccc12 |^1:0|', '[CH2]C1=CNC2=CC=CC=C12 |^1:0|'),
    # --- three-connected S / Se / B / P ring atoms
    ('S-methylthiophenium', 'onium', 'C[s+]1cccc1', 'C[S+]1C=CC=C1'),
    ('Se-methylselenophenium', 'onium', 'C[se+]1cccc1', 'C[Se+]1C=CC=C1'),
    ('S-methylbenzothiophenium', 'onium', 'C[s+]1ccc2ccccc12', 'C[S+]1C=CC2=CC=CC=C12'),
    ('thiophene-S-oxide-ylide', 'repair-rule-3', '[O-][s+]1cccc1', 'O=S1C=CC=C1', 'nordkit'),
    ('B-methylboratabenzene', 'onium', 'C[b-]1ccccc1', 'C[B-]1=CC=CC=C1'),
    ('1,3,2-dioxaborole', 'onium', 'c1oboc1', 'C=1OBOC=1'),
    ('1,3,2-dioxaborole-BH', 'onium', 'c1o[bH]oc1', 'C=1O[BH]OC=1'),
    ('borepin', 'onium', '[bH]1cccccc1', 'B1C=CC=CC=C1'),
    ('borabenzene', 'onium', 'b1ccccc1', None),
    ('lambda5-phosphinine', 'onium', 'C[p]1(C)ccccc1', 'CP1(C)=CC=CC=C1'),
    ('S,S-dimethylthiophene', 'onium', None, 'CS1(C)C=CC=C1'),
    ('P,P,P-trimethylphosphole', 'onium', None, 'CP1(C)(C)C=CC=C1'),
    # --- mis-drawn aromatic rings that Kekule.__prepare_rings documents as repaired
    ('benzene-single-bond-in-ring', 'misdrawn', 'c1ccc-cc1', 'C1=CC=CC=C1', 'nordkit'),
    ('benzene-double-bond-in-ring', 'misdrawn', 'c1ccc=cc1', 'C1=CC=CC=C1', 'nordkit'),
    ('benzene-double-bond-in-ring-2', 'misdrawn', 'c1cc=ccc1', 'C1=CC=CC=C1', 'nordkit'),
    ('benzene-closure-double', 'misdrawn', 'c=1ccccc=1', 'C1=CC=CC=C1', 'nordkit'),
    ('benzene-alternating-on-aromatic-atoms', 'misdrawn', 'c1=cc=cc=c1', 'C1=CC=CC=C1', 'nordkit'),
    ('pyridine-double-bond-in-ring', 'misdrawn', 'n1ccc=cc1', 'N1=CC=CC=C1', 'nordkit'),
    ('naphthalene-single-fusion-bonds', 'misdrawn', 'c1ccc2c(c1)-cccc-2', 'C1=CC=C2C(=C1)C=CC=C2', 'nordkit'),
    ('thiophene-double-bond-in-ring', 'misdrawn', 's1cc=cc1', 'S1C=CC=C1', 'nordkit'),
    ('terphenyl-aromatic-links', 'misdrawn', 'c1ccccc1c1ccccc1c1ccccc1', 'C1=CC=CC=C1C1=CC=CC=C1C1=CC=CC=C1', 'nordkit'),
    # --- repair rules of aromatics/_rules.py (rule 1 is a template of o05_domain.py)
    ('pyridine-N-imide', 'repair-rule-2', 'N=n1ccccc1', '[NH-][N+]1=CC=CC=C1', 'nordkit'),
    ('pyridine-N-methylimide', 'repair-rule-2', 'CN=n1ccccc1', 'C[N-][N+]1=CC=CC=C1', 'nordkit'),
    ('pyrazine-di-N-oxide-mixed', 'repair-rule-4', 'O=[n+]1ccn([O-])cc1', '[O-][N+]1=CC=[N+]([O-])C=C1', 'nordkit'),
    ('quinoxaline-di-N-oxide-mixed', 'repair-rule-4', 'O=[n+]1c2ccccc2n([O-])cc1', '[O-][N+]1=CC=[N+]([O-])C2=CC=CC=C12', 'nordkit'),
    ('pyrazine-di-N-oxide-pentavalent', 'repair-rule-1', 'O=n1ccn(=O)cc1', '[O-][N+]1=CC=[N+]([O-])C=C1', 'nordkit'),
    ('quinoline-N-oxide-pentavalent', 'repair-rule-1', 'O=n1cccc2ccccc12', '[O-][N+]1=CC=CC2=CC=CC=C12', 'nordkit'),
    ('N-methylimidazole-triple-bond', 'repair-rule-5', 'Cn1c#cnc1', None, 'nordkit'),
    ('imidazole-triple-bond', 'repair-rule-5', 'c1#cnc[nH]1', None, 'nordkit'),
    ('furoxan-pentavalent', 'repair-rule-7', 'O=[n+]1onc(C)c1C', None, 'nordkit'),
    ('benzofuroxan-N-methyl-pentavalent', 'repair-rule-7', 'O=[n+]1on(C)c2ccccc12', None, 'nordkit'),
    ('copper-pyridine-covalent', 'repair-rule-8', '[Cu]n1ccccc1', None, 'nordkit'),
    ('cisplatin-type-bis-pyridine', 'repair-rule-8', 'Cl[Pt](Cl)(n1ccccc1)n1ccccc1', None, 'nordkit'),
    ('platinum-bipyridyl-chelate', 'repair-rule-8', 'Cl[Pt]1(Cl)n2ccccc2-c2ccccn12', None, 'nordkit'),
    # --- five-membered rings aromatised by the rule table of thiele() ("freaks")
    ('1H-pyrrolo[1,2-a]imidazole', 'freak', '[nH]1ccn2cccc12', 'N1C=CN2C=CC=C12'),
    ('1-methylpyrrolo[1,2-a]imidazole', 'freak', 'Cn1ccn2cccc12', 'CN1C=CN2C=CC=C12'),
    ('pyrrolo[2,1-b]thiazole', 'freak', 's1ccn2cccc12', 'S1C=CN2C=CC=C12'),
    ('pyrrolo[2,1-b]oxazole', 'freak', 'o1ccn2cccc12', 'O1C=CN2C=CC=C12'),
    # --- mixed spellings: one ring aromatic, the other one localised
    ('naphthalene-mixed', 'mixed', 'C1=Cc2ccccc2C=C1', 'C1=CC2=CC=CC=C2C=C1'),
    ('naphthalene-mixed-2', 'mixed', 'C1=CC=Cc2ccccc12', 'C1=CC=CC2=CC=CC=C12'),
    ('quinoline-mixed', 'mixed', 'c1ccc2N=CC=Cc2c1', 'C1=CC=C2N=CC=CC2=C1'),
    ('indole-mixed', 'mixed', 'c1ccc2NC=Cc2c1', 'C1=CC=C2NC=CC2=C1'),
    ('indole-mixed-2', 'mixed', 'C1=Cc2c(C=C1)cc[nH]2', 'C1=CC=C2C(=C1)C=CN2'),
    ('benzofuran-mixed', 'mixed', 'c1ccc2OC=Cc2c1', 'C1=CC=C2OC=CC2=C1'),
    ('biphenyl-mixed', 'mixed', 'C1=CC=CC=C1c1ccccc1', 'C1=CC=CC=C1C1=CC=CC=C1'),
    ('carbazole-mixed', 'mixed', 'c1ccc2c(c1)[nH]c1C=CC=Cc12', 'C1=CC=C2C(=C1)NC1=C2C=CC=C1'),
    ('anthracene-mixed', 'mixed', 'c1ccc2cc3C=CC=Cc3cc2c1', 'C1=CC=C2C=C3C=CC=CC3=CC2=C1'),
    # --- isotopes and explicit hydrogen atoms
    ('benzene-13C', 'isotope-explicit-H', '[13cH]1ccccc1', '[13CH]1=CC=CC=C1'),
    ('pyridine-15N', 'isotope-explicit-H', '[15n]1ccccc1', '[15N]1=CC=CC=C1'),
    ('pyrrole-15N', 'isotope-explicit-H', '[15nH]1cccc1', '[15NH]1C=CC=C1'),
    ('benzene-d1', 'isotope-explicit-H', '[2H]c1ccccc1', '[2H]C1=CC=CC=C1'),
    ('benzene-d6', 'isotope-explicit-H', '[2H]c1c([2H])c([2H])c([2H])c([2H])c1[2H]', '[2H]C1=C([2H])C([2H])=C([2H])C([2H])=C1[2H]'),
    ('benzene-explicit-H', 'isotope-explicit-H', '[H]c1c([H])c([H])c([H])c([H])c1[H]', '[H]C1=C([H])C([H])=C([H])C([H])=C1[H]'),
    ('benzene-one-explicit-H', 'isotope-explicit-H', '[H]c1ccccc1', '[H]C1=CC=CC=C1'),
    ('pyrrole-explicit-NH', 'isotope-explicit-H', '[H]n1cccc1', '[H]N1C=CC=C1'),
    ('imidazole-explicit-NH', 'isotope-explicit-H', '[H]n1ccnc1', '[H]N1C=CN=C1'),
    ('benzimidazole-ND', 'isotope-explicit-H', '[2H]n1cnc2ccccc12', '[2H]N1C=NC2=CC=CC=C12'),
    ('pyridinium-explicit-NH', 'isotope-explicit-H', '[H][n+]1ccccc1', '[H][N+]1=CC=CC=C1'),
    ('cyclopentadienide-explicit-H', 'isotope-explicit-H', '[H][c-]1cccc1', '[H][C-]1C=CC=C1'),
    ('methylcyclopentadienide', 'isotope-explicit-H', 'C[c-]1cccc1', 'C[C-]1C=CC=C1'),
    ('methyltropylium', 'isotope-explicit-H', 'C[c+]1cccccc1', 'C[C+]1C=CC=CC=C1'),
    ('phosphole-explicit-PH', 'isotope-explicit-H', '[H]p1cccc1', '[H]P1C=CC=C1'),
    ('borole-explicit-BH', 'isotope-explicit-H', '[H]b1cccc1', '[H]B1C=CC=C1'),
    ('pyridine-explicit-CH', 'isotope-explicit-H', '[H]c1ccncc1', '[H]C1=CC=NC=C1'),
    ('indole-explicit-all-H', 'isotope-explicit-H', '[H]c1c([H])n([H])c2c([H])c([H])c([H])c([H])c12',
     '[H]C1=C([H])N([H])C2=C1C([H])=C([H])C([H])=C2[H]'),
    # --- several components (salts, mixtures) and several independent ring systems in one component
    ('benzene.pyridine', 'multi-component', 'c1ccccc1.c1ccncc1', 'C1=CC=CC=C1.C1=CC=NC=C1'),
    ('sodium pyrrolide', 'multi-component', '[Na+].[n-]1cccc1', '[Na+].[N-]1C=CC=C1'),
    ('sodium cyclopentadienide', 'multi-component', '[Na+].[cH-]1cccc1', '[Na+].[CH-]1C=CC=C1'),
    ('pyridinium chloride', 'multi-component', 'c1cc[nH+]cc1.[Cl-]', 'C1=C[NH+]=CC=C1.[Cl-]'),
    ('tropylium tetrafluoroborate', 'multi-component', '[cH+]1cccccc1.F[B-](F)(F)F', '[CH+]1C=CC=CC=C1.F[B-](F)(F)F'),
    ('benzene.furan.thiophene', 'multi-component', 'c1ccccc1.c1ccoc1.c1ccsc1', 'C1=CC=CC=C1.C1=COC=C1.C1=CSC=C1'),
    ('imidazole.water', 'multi-component', 'c1c[nH]cn1.O', 'C1=CNC=N1.O'),
    ('triphenylphosphine', 'multi-component', 'c1ccccc1P(c1ccccc1)c1ccccc1', 'C1=CC=CC=C1P(C1=CC=CC=C1)C1=CC=CC=C1'),
    ('tetraphenylmethane', 'multi-component', 'c1ccccc1C(c1ccccc1)(c1ccccc1)c1ccccc1', 'C1=CC=CC=C1C(C1=CC=CC=C1)(C1=CC=CC=C1)C1=CC=CC=C1'),
    ('diphenyl ether.naphthalene', 'multi-component', 'c1ccccc1Oc1ccccc1.c1ccc2ccccc2c1', 'C1=CC=CC=C1OC1=CC=CC=C1.C1=CC=C2C=CC=CC2=C1'),
    # --- P / N / B at a ring fusion (three ring neighbours; the fork branches of the alternation search)
    ('phosphaindolizine', 'fusion-heteroatom', 'c1ccp2cccc2c1', 'C1=CC=CP2C=CC=C12'),
    ('phospha[2.2.3]cyclazine', 'fusion-heteroatom', 'c1cc2cccc3c2p1cc3', 'C1=CC2=CC=CC3=C2P1C=C3'),
    ('phosphacyclazinone', 'fusion-heteroatom', 'O=c1ccc2cccc3c2p1cc3', 'O=C1C=CC2=CC=CC3=C2P1C=C3'),
    ('phosphacyclazinedione', 'fusion-heteroatom', 'O=c1ccc2cccc3c2p1c(=O)cc3', 'O=C1C=CC2=CC=CC3=C2P1C(=O)C=C3'),
    ('aza[2.2.3]cyclazine', 'fusion-heteroatom', 'c1cc2cccc3c2n1cc3', 'C1=CC2=CC=CC3=C2N1C=C3'),
    ('bora[2.2.3]cyclazine', 'fusion-heteroatom', 'c1cc2cccc3c2b1cc3', 'C1=CC2=CC=CC3=C2B1C=C3'),
    ('borataindolizine-type', 'fusion-heteroatom', 'c1cc[b-]2ccccc2c1', None),
    ('borabicycloundecapentaene', 'fusion-heteroatom', None, 'C1=CC=C2C=CC=CB2C=C1'),
    ('quinolizinium', 'fusion-heteroatom', 'c1cc[n+]2ccccc2c1', 'C1=CC=[N+]2C=CC=CC2=C1'),
    ('4H-quinolizin-4-one', 'fusion-heteroatom', 'O=c1cccc2ccccn12', 'O=C1C=CC=C2C=CC=CN12'),
    # --- ring sizes at and beyond the 4..7 window of thiele()
    ('cyclopropenylium', 'ring-size', '[cH+]1cc1', '[CH+]1C=C1'),
    ('triphenylcyclopropenylium', 'ring-size', 'c1ccccc1[c+]1c(c2ccccc2)c1c1ccccc1', 'C1=CC=CC=C1[C+]1C(C2=CC=CC=C2)=C1C1=CC=CC=C1'),
    ('cyclooctatetraene-aromatic-spelling', 'ring-size', 'c1ccccccc1', 'C1=CC=CC=CC=C1', 'nordkit'),
    ('[14]annulene-aromatic-spelling', 'ring-size', 'c1ccccccccccccc1', 'C1=CC=CC=CC=CC=CC=CC=C1', 'nordkit'),
    ('cyclononatetraenide', 'ring-size', '[cH-]1cccccccc1', '[CH-]1C=CC=CC=CC=C1', 'nordkit'),
    ('azepine', 'ring-size', None, 'N1C=CC=CC=C1'),
    ('oxepine', 'ring-size', None, 'O1C=CC=CC=C1'),
    ('azocine', 'ring-size', None, 'N1=CC=CC=CC=C1'),
    # --- rings whose every atom carries an exocyclic double bond; partial polyketones
    ('cyclopentanepentone', 'polyketone', None, 'O=C1C(=O)C(=O)C(=O)C1=O'),
    ('cyclohexanehexone', 'polyketone', None, 'O=C1C(=O)C(=O)C(=O)C(=O)C1=O'),
    ('radialene-6', 'polyketone', None, 'C=C1C(=C)C(=C)C(=C)C(=C)C1=C'),
    ('benzoquinone-dione', 'polyketone', None, 'O=C1C=CC(=O)C(=O)C1=O'),
    ('squaric acid', 'polyketone', None, 'OC1=C(O)C(=O)C1=O'),
    ('croconate-type', 'polyketone', None, 'OC1=C(O)C(=O)C(=O)C1=O'),
    ('alloxan', 'polyketone', None, 'O=C1NC(=O)C(=O)C(=O)N1'),
    ('ninhydrin-dehydrated', 'polyketone', 'O=C1C(=O)c2ccccc2C1=O', 'O=C1C(=O)C2=CC=CC=C2C1=O'),
    # --- condensed NH tautomers (fix_tautomers branch of thiele)
    ('1H-pyrrolo[3,2-c]pyridine-tautomer', 'tautomer', None, 'N1C=CC2=NC=CC2=C1'),
    ('imidazo[4,5-c]pyridine-tautomer', 'tautomer', None, 'N1C=CC2=NC=NC2=C1'),
    ('pyrrolo[2,3-d]pyrimidine-tautomer', 'tautomer', None, 'N1C=NC2=NC=CC2=C1'),
    ('pyrrolo[2,3-c]pyridine-tautomer', 'tautomer', None, 'N1C=CC2=CC=NC2=C1'),
    ('pyrrolo[3,2-c]pyridine-tautomer-2', 'tautomer', None, 'N1C=CC2=C1C=CN=C2'),
    ('N-methyl-pyrrolo[3,2-c]pyridine-betaine-type', 'tautomer', None, 'C1=CC2=NC=CC2=CN1C'),
    ('pyrrolo-pyridinone-not-aromatisable', 'tautomer', None, 'N1C=CC(=O)C2=NC=CC12'),
    ('purine-3H-tautomer', 'tautomer', None, 'N1C=NC2=NC=NC2=C1'),
    ('4(1H)-pyridinimine-fused-5-ring', 'tautomer', None, 'N1C=CC2=NC3=CC=CC=C3C2=C1'),
    # --- aromatic N written without hydrogen where one of several N must carry it (the library accepts the text and chooses)
    ('3(5)-methylpyrazole-no-NH', 'undetermined-NH', 'Cc1ccnn1', None, 'nordkit'),
    ('3(5)-methylpyrazole-no-NH-other-order', 'undetermined-NH', 'n1nc(C)cc1', None, 'nordkit'),
    ('benzotriazole-no-NH', 'undetermined-NH', 'c1ccc2c(c1)nnn2', None, 'nordkit'),
    ('5-fluorobenzimidazole-no-NH', 'undetermined-NH', 'Fc1ccc2ncnc2c1', None, 'nordkit'),
    ('pyrazole-no-NH', 'undetermined-NH', 'c1cnnc1', None, 'nordkit'),
    # --- aza-fused systems written without any [nH], atom orders in which the search meets two-NH alternations before the
    #     all-pyridine form (the preference buffer of _kekule_component; buffer_size matters here)
    ('pyrido[3,4-b]pyrazine', 'aza-fused-buffer', 'n1c2ccncc2ncc1', 'C1=CN=C2C=CN=CC2=N1'),
    ('pyrido[3,4-b]pyrazine-other-order', 'aza-fused-buffer', 'c1cc2nccnc2cn1', 'C1=CN=C2C=CN=CC2=N1'),
    ('imidazo[1,2-a]pyrazine', 'aza-fused-buffer', 'c1cncc2n1ccn2', 'C1=NC=CN2C=CN=C12'),
    ('imidazo[1,2-a]pyrazine-other-order', 'aza-fused-buffer', 'n1cc2n(ccn2)cc1', 'C1=NC=CN2C=CN=C12'),
    ('imidazo[1,2-b]pyridazine', 'aza-fused-buffer', 'c12n(nccc2)ccn1', 'C1=CC2=NC=CN2N=C1'),
    ('pyrazino[2,3-b]quinoxaline', 'aza-fused-buffer', 'n1c2nc3ccccc3nc2ncc1', 'C1=CN=C2N=C3C=CC=CC3=NC2=N1'),
    ('pteridine-other-order', 'aza-fused-buffer', 'n1c2ncncc2ncc1', 'C1=CN=C2N=CN=CC2=N1'),
    # --- closed cages: no ring atom with only two ring neighbours (start atom branch "fullerene?")
    ('C20 fullerene', 'cage', 'c12c3c4c5c1c1c6c2c2c3c3c4c4c5c1c1c6c2c3c41', None, 'nordkit'),
]

# thorough tier only (seconds per molecule)
CLASSES_THOROUGH = [
    ('C60 fullerene', 'cage',
     'c12c3c4c5c1c1c6c7c2c2c8c3c3c9c4c4c%10c5c5c1c1c6c6c%11c7c2c2c7c8c3c3c8c9c4c4c9c%10c5c5c1c1c6c6c%11c2c2c7c3c3c8c4c4c9c5c1c1c6c2c3c41',
     None, 'nordkit'),
    ('hexaphenylbenzene', 'multi-component', 'c1ccccc1c1c(c2ccccc2)c(c2ccccc2)c(c2ccccc2)c(c2ccccc2)c1c1ccccc1', None, 'nordkit'),
    ('coronene', 'cage', 'c1cc2ccc3ccc4ccc5ccc6ccc1c1c2c3c4c5c61', 'C1=CC2=CC=C3C=CC4=CC=C5C=CC6=CC=C1C1=C2C3=C4C5=C61'),
]

# inputs without any ring double bond system: both conversions must be the identity and report False
TRIVIAL = ['C', '[Na+]', '[H][H]', 'CC=O', 'C=C', 'C#C', 'C=C=C', 'C1CC1', 'C1CCCCC1', 'OC(=O)CC(N)C#N', 'C1CC=CCC1', '[Cu]N(C)C', 'O.O',
           'C1CC2CCC1CC2', 'N#CC', '[O-][N+](=O)C', 'C[S+](C)C.[I-]']


def generate(thorough=False):
    """yield (name, pattern text, first spelling, Kekule spelling, violation family, rdkit usable)"""
    for name, fam, first, kek, *opt in CLASSES + (CLASSES_THOROUGH if thorough else []):
        yield name, 'class:' + fam, first, kek, fam, 'nordkit' not in opt
