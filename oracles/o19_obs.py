"""C19 observable catalogues (coverage audit of checks/b19.py).

Everything here is a *reading* of a container: no function of this module may change the object it is given (transformations run on a
copy).  Values are turned into a canonical, address-free text by `canon` before hashing:

* `canon(v)`            dict -> items in iteration order (dict order IS observable: match lists, atoms_rings ...), set -> sorted
* `canon(v, raw=True)`  sets in iteration order as well (small-int set order depends on the insertion history only; a copy or a cached
                        value built in another way shows up here)

Flags of an observable:
  local  value depends on the hash seed by design (`hash(container)` = hash of the canonical string): compared inside one process only
  nf     number-free and independent of the hydrogen bookkeeping: comparable with a fresh parse of the canonical string
  heavy  expensive (evaluated on the first evaluation only / thorough tier)
"""
import inspect
import itertools
from functools import cached_property

QUERIES2 = ('[#6]~[#6]~[#7,#8]', '[C;r6]-[N,O]', 'c:c-[N,O]', '[O,N].[Cl,Na,K,Cu]', '[N,O;h1,h2]', '[#6]-[#8]', '[#6]/[#6]=[#6]/[#6]', '[C@](C)(N)',
            '[C;D3]=[C;D2]')


class Harness(Exception):
    """the checker met a value it cannot render without an address: a checker problem, never a violation"""


def canon(v, raw=False, _depth=0):
    from chython.containers.graph import Graph
    from chython.containers.cgr import CGRContainer
    from chython.containers.reaction import ReactionContainer
    from chython.containers.bonds import Bond, DynamicBond, QueryBond
    from chython.periodictable.base.element import Element
    from chython.periodictable.base.dynamic import DynamicElement
    if _depth > 12:
        raise Harness('value nested too deeply')
    c = lambda x: canon(x, raw, _depth + 1)
    if v is None or isinstance(v, (bool, int, str)):
        return v
    if isinstance(v, float):
        return repr(v)
    if isinstance(v, bytes):
        return 'b:' + v.hex()
    if isinstance(v, (Graph, CGRContainer)):
        return ('G', type(v).__name__, str(v) if not type(v).__name__.startswith('Query') else None, list(v._atoms),
                [(n, list(nb)) for n, nb in v._bonds.items()])
    if isinstance(v, ReactionContainer):
        return ('R', format(v, '!c'), [c(m) for m in v.molecules()])
    if isinstance(v, Element):
        return ('E', v.atomic_symbol, v.isotope, v.charge, v.is_radical, v.implicit_hydrogens, v.stereo)
    if isinstance(v, DynamicElement):
        return ('DE', v.atomic_symbol, v.isotope, v.charge, v.p_charge, v.is_radical, v.p_is_radical)
    if isinstance(v, Bond):
        return ('B', v.order, v.stereo)
    if isinstance(v, DynamicBond):
        return ('DB', v.order, v.p_order)
    if isinstance(v, QueryBond):
        return ('QB', tuple(v.order))
    if isinstance(v, dict):
        return ('d', [(c(k), c(x)) for k, x in v.items()])
    if isinstance(v, (set, frozenset)):
        items = [c(x) for x in v]
        return ('s', items if raw else sorted(items, key=repr))
    if isinstance(v, (list, tuple)):
        return [c(x) for x in v]
    if hasattr(v, 'tobytes') and hasattr(v, 'shape'):
        return ('np', tuple(v.shape), v.tobytes().hex())
    if hasattr(v, '__next__'):
        return [c(x) for x in v]
    r = repr(v)
    if ' at 0x' in r:
        raise Harness(f'cannot render {type(v).__name__} without an address')
    return r


def public_cached(cls):
    """names of the public functools.cached_property members, read off the class"""
    out = []
    for name in dir(cls):
        if name.startswith('_'):
            continue
        try:
            a = inspect.getattr_static(cls, name)
        except AttributeError:
            continue
        if isinstance(a, cached_property):
            out.append(name)
    return sorted(out)


class Ob:
    __slots__ = ('name', 'fn', 'local', 'nf', 'heavy')

    def __init__(self, name, fn, local=False, nf=False, heavy=False):
        self.name, self.fn, self.local, self.nf, self.heavy = name, fn, local, nf, heavy


def _first(gen, k):
    return list(itertools.islice(gen, k))


def _half(m):
    a = list(m)
    return a[:(len(a) + 1) // 2]


def molecule_observables(pack, basic=True):
    """list of Ob for a MoleculeContainer.  basic=True prepends the catalogue of checks.b19._observables (without its transformations)."""
    from chython import smarts, MoleculeContainer
    obs = []
    if basic:
        from checks import b19
        for name, f in b19._observables(pack):
            if name in b19.EXPENSIVE or name in ('neutralize', 'kekule', 'kekule+thiele'):
                continue      # transformations are applied IN PLACE by the callers of this catalogue
            obs.append(Ob(name, f, nf=name in ('str', 'format:A', 'linear_hash_set', 'morgan_hash_set', 'linear_fingerprint', 'morgan_fingerprint')))
    A = obs.append
    for spec in ('!s', '!b', '!z', '!x', 'a', 'Am', 'mh', 'h!s', 'A!s!z'):
        A(Ob(f'format:{spec}', (lambda spec: lambda m: format(m, spec))(spec), nf=spec in ('!s', 'A!s!z', 'a')))
    A(Ob('format:order', lambda m: m.__format__('', _return_order=True)))
    A(Ob('format:m:order', lambda m: m.__format__('m', _return_order=True)))
    A(Ob('hash', hash, local=True))
    A(Ob('eq:copy', lambda m: (m == m.copy(), hash(m) == hash(m.copy()))))
    A(Ob('int,len,bool', lambda m: (int(m), len(m), bool(m), m.atoms_count, m.connected_components_count), nf=True))
    A(Ob('float', lambda m: float(m)))
    A(Ob('storage', lambda m: (list(m), [(n, list(m.environment(n, include_bond=False, include_atom=False))) for n in m],
                               list(m.atoms_numbers), [(n, k) for n, k, _ in m.bonds()])))
    A(Ob('labels:atoms', lambda m: [(n, a.atomic_symbol, a.isotope, a.charge, a.is_radical, a.implicit_hydrogens, a.explicit_hydrogens,
                                     a.neighbors, a.heteroatoms, a.hybridization, a.in_ring, sorted(a.ring_sizes), a.stereo, repr(a.x), repr(a.y))
                                    for n, a in m.atoms()]))
    A(Ob('labels:bonds', lambda m: [(n, k, b.order, b.in_ring, b.stereo) for n, k, b in m.bonds()]))
    for name in public_cached(MoleculeContainer):
        A(Ob(f'prop:{name}', (lambda name: lambda m: canon(getattr(m, name)))(name),
             nf=name in ('molecular_charge', 'is_radical', 'rings_count', 'bonds_count')))
        A(Ob(f'prop:{name}:iteration', (lambda name: lambda m: canon(getattr(m, name), raw=True))(name)))
    A(Ob('prop:_cython_compiled_structure', lambda m: canon(m._cython_compiled_structure)))
    A(Ob('prop:_chiral_morgan', lambda m: canon(m._chiral_morgan)))
    A(Ob('adjacency_matrix', lambda m: (canon(m.adjacency_matrix()), canon(m.adjacency_matrix(True)))))
    A(Ob('check_valence', lambda m: m.check_valence()))
    # fingerprints with every keyword away from its default
    A(Ob('linear_fingerprint:kw', lambda m: m.linear_fingerprint(min_radius=2, max_radius=5, length=2048, number_active_bits=3, number_bit_pairs=2).tobytes(), nf=True))
    A(Ob('morgan_fingerprint:kw', lambda m: m.morgan_fingerprint(min_radius=2, max_radius=3, length=512, number_active_bits=1).tobytes(), nf=True))
    A(Ob('linear_bit_set', lambda m: canon(m.linear_bit_set()), nf=True))
    A(Ob('linear_bit_set:iteration', lambda m: canon(m.linear_bit_set(length=4096, number_bit_pairs=1), raw=True)))
    A(Ob('morgan_bit_set', lambda m: canon(m.morgan_bit_set()), nf=True))
    A(Ob('morgan_bit_set:iteration', lambda m: canon(m.morgan_bit_set(min_radius=1, max_radius=2, length=256), raw=True)))
    A(Ob('linear_hash_set:kw', lambda m: canon(m.linear_hash_set(min_radius=3, max_radius=6, number_bit_pairs=1)), nf=True))
    A(Ob('morgan_hash_set:kw', lambda m: canon(m.morgan_hash_set(min_radius=2, max_radius=6)), nf=True))
    A(Ob('linear_hash_smiles', lambda m: canon(m.linear_hash_smiles(max_radius=3))))
    A(Ob('linear_smiles_hash', lambda m: canon(m.linear_smiles_hash(max_radius=3))))
    A(Ob('morgan_hash_smiles', lambda m: canon(m.morgan_hash_smiles(max_radius=2))))
    A(Ob('morgan_smiles_hash', lambda m: canon(m.morgan_smiles_hash(max_radius=2))))
    # matching: molecule as pattern and as target, every keyword
    A(Ob('automorphisms:first20', lambda m: canon(_first(m.get_automorphism_mapping(), 20))))
    A(Ob('is_automorphic', lambda m: m.is_automorphic(), nf=True))
    # several pattern components are matched by permutations of the target components: bounded to 4 components
    few = lambda m: m.connected_components_count <= 4
    A(Ob('self_mapping:first20', lambda m: canon(_first(m.get_mapping(m), 20)) if few(m) else 'skipped'))
    A(Ob('self_mapping:no-filter:first20', lambda m: canon(_first(m.get_mapping(m, automorphism_filter=False), 20)) if few(m) else 'skipped'))
    A(Ob('self_mapping:stereo:first5', lambda m: canon(_first(m.get_mapping(m, match_stereo=True), 5)) if few(m) else 'skipped'))
    A(Ob('self_mapping:scope', lambda m: canon(_first(m.get_mapping(m, searching_scope=_half(m), automorphism_filter=False), 10)) if few(m) else 'skipped'))
    A(Ob('fast_mapping:copy', lambda m: canon(m.get_fast_mapping(m.copy()))))
    A(Ob('is_equal,is_substructure', lambda m: (m.is_equal(m.copy()), m.is_substructure(m.copy()), m <= m, m < m)))
    qs = [(q, smarts(q)) for q in QUERIES2]
    for i, (q, qq) in enumerate(qs):
        A(Ob(f'get_mapping:py:{q}', (lambda qq: lambda m: canon(_first(qq.get_mapping(m, _cython=False), 50)))(qq)))
        if pack:   # the compiled matcher (de-cythonised module injected together with pack)
            A(Ob(f'get_mapping:compiled:{q}', (lambda qq: lambda m: canon(_first(qq.get_mapping(m), 50)))(qq)))
        if i % 3 == 0:      # searching_scope (list and set) and the unfiltered compiled search on every third query
            if pack:
                A(Ob(f'get_mapping:compiled:no-filter:scope:{q}',
                     (lambda qq: lambda m: canon(_first(qq.get_mapping(m, automorphism_filter=False, searching_scope=_half(m)), 50)))(qq)))
            A(Ob(f'get_mapping:py:scope:{q}', (lambda qq: lambda m: canon(_first(qq.get_mapping(m, searching_scope=set(_half(m)), _cython=False), 50)))(qq)))
    # derived containers
    A(Ob('split', lambda m: [(str(x), format(x, 'h'), list(x)) for x in m.split()]))
    A(Ob('split:sorted-strings', lambda m: sorted(str(x) for x in m.split()), nf=True))
    A(Ob('substructure:half', lambda m: (lambda s: (str(s), format(s, 'h'), list(s)))(m.substructure(_half(m)))))
    A(Ob('substructure:half:keep-h', lambda m: (lambda s: (str(s), format(s, 'h'), list(s)))(m.substructure(set(_half(m)), recalculate_hydrogens=False))))
    A(Ob('augmented_substructure', lambda m: (lambda s: (str(s), list(s)))(m.augmented_substructure([next(iter(m))], deep=2))))
    A(Ob('augmented_substructures', lambda m: [(str(s), list(s)) for s in m.augmented_substructures([list(m)[-1]], deep=3)]))
    A(Ob('enumerate_kekule:first2', lambda m: [(str(x), list(x)) for x in _first(m.copy().enumerate_kekule(), 2)]))   # on a copy: ring repair rules rewrite the source
    A(Ob('compose:self', lambda m: (lambda g: (str(g), list(g), canon(g.center_atoms, raw=True)))(m ^ m.copy())))
    A(Ob('union:self', lambda m: (lambda u: (str(u), list(u)))(m | m)))
    if pack:
        A(Ob('pack:roundtrip', lambda m: (lambda u: (str(u), list(u), u.pack()))(MoleculeContainer.unpack(m.pack()))))
        A(Ob('pack:no-check,bytes', lambda m: (m.pack(check=False, compressed=False), bytes(m), MoleculeContainer.pack_len(m.pack()))))
    names = [o.name for o in obs]
    if len(set(names)) != len(names):
        raise Harness('duplicate observable names')
    return obs


def cgr_observables():
    from chython import CGRContainer
    obs = []
    A = obs.append
    A(Ob('str', str))
    A(Ob('hash', hash, local=True))
    A(Ob('format:m', lambda g: format(g, 'm')))
    A(Ob('format:a!s', lambda g: format(g, 'a!s')))
    A(Ob('storage', lambda g: (list(g), [(n, list(nb)) for n, nb in g._bonds.items()], [(n, k) for n, k, _ in g.bonds()], len(g))))
    A(Ob('atoms', lambda g: canon([(n, a) for n, a in g.atoms()])))
    A(Ob('bonds', lambda g: canon([(n, k, b) for n, k, b in g.bonds()])))
    for name in public_cached(CGRContainer):
        A(Ob(f'prop:{name}', (lambda name: lambda g: canon(getattr(g, name)))(name)))
        A(Ob(f'prop:{name}:iteration', (lambda name: lambda g: canon(getattr(g, name), raw=True))(name)))
    A(Ob('connected_components_count', lambda g: g.connected_components_count))
    A(Ob('linear_fingerprint', lambda g: g.linear_fingerprint().tobytes()))
    A(Ob('morgan_fingerprint', lambda g: g.morgan_fingerprint().tobytes()))
    A(Ob('linear_hash_set', lambda g: canon(g.linear_hash_set())))
    A(Ob('linear_hash_set:iteration', lambda g: canon(g.linear_hash_set(), raw=True)))
    A(Ob('morgan_hash_set', lambda g: canon(g.morgan_hash_set())))
    A(Ob('morgan_hash_set:iteration', lambda g: canon(g.morgan_hash_set(), raw=True)))
    A(Ob('linear_bit_set:kw', lambda g: canon(g.linear_bit_set(min_radius=2, max_radius=3, length=512, number_active_bits=1, number_bit_pairs=2))))
    A(Ob('morgan_bit_set:kw', lambda g: canon(g.morgan_bit_set(min_radius=1, max_radius=2, length=512, number_active_bits=3))))
    # several pattern components are matched by permutations of the target components: bounded to 4 components
    A(Ob('self_mapping:first20', lambda g: canon(_first(g.get_mapping(g), 20)) if g.connected_components_count <= 4 else 'skipped'))
    A(Ob('self_mapping:no-filter:scope', lambda g: canon(_first(g.get_mapping(g, automorphism_filter=False, searching_scope=_half(g)), 20))
         if g.connected_components_count <= 4 else 'skipped'))
    A(Ob('is_equal,is_substructure', lambda g: (g.is_equal(g), g.is_substructure(g))))
    A(Ob('substructure:center', lambda g: (lambda s: (str(s), list(s), [(n, list(nb)) for n, nb in s._bonds.items()]))(g.substructure(g.center_atoms))
         if g.center_atoms else None))
    A(Ob('substructure:half', lambda g: (lambda s: (str(s), list(s)))(g.substructure(_half(g)))))
    A(Ob('augmented_substructure:center', lambda g: (lambda s: (str(s), list(s)))(g.augmented_substructure(g.center_atoms, deep=1)) if g.center_atoms else None))
    A(Ob('center_atoms:substructure-mapping', lambda g: canon(_first(g.substructure(g.center_atoms).get_mapping(g), 10)) if g.center_atoms else None))
    return obs


def reaction_observables(pack):
    from chython import ReactionContainer
    cg = cgr_observables()
    obs = []
    A = obs.append
    A(Ob('str', str))
    for spec in ('m', '!c', 'h', 'A', '!x', 'a', '!s!z', 'm!c'):
        A(Ob(f'format:{spec}', (lambda spec: lambda r: format(r, spec))(spec)))
    A(Ob('hash', hash, local=True))
    A(Ob('eq:copy', lambda r: (r == r.copy(), hash(r) == hash(r.copy()), bool(r), len(r))))
    A(Ob('roles', lambda r: ([str(m) for m in r.reactants], [str(m) for m in r.reagents], [str(m) for m in r.products])))
    A(Ob('molecules:storage', lambda r: [(list(m), [(n, list(nb)) for n, nb in m._bonds.items()]) for m in r.molecules()]))
    A(Ob('molecules:atoms_order', lambda r: [list(m.atoms_order.items()) for m in r.molecules()]))
    A(Ob('molecules:sssr', lambda r: [m.sssr for m in r.molecules()]))
    A(Ob('molecules:format:h', lambda r: [format(m, 'h') for m in r.molecules()]))
    A(Ob('molecules:stereo', lambda r: [([(n, a.stereo) for n, a in m.atoms() if a.stereo is not None],
                                        [(n, k, b.stereo) for n, k, b in m.bonds() if b.stereo is not None]) for m in r.molecules()]))
    A(Ob('check_valence', lambda r: r.check_valence()))
    if pack:
        A(Ob('pack', lambda r: r.pack()))
        A(Ob('pack:uncompressed,bytes,len', lambda r: (r.pack(compressed=False), bytes(r), canon(ReactionContainer.pack_len(r.pack())))))
        A(Ob('pack:roundtrip', lambda r: (lambda u: (format(u, '!c'), u.pack()))(ReactionContainer.unpack(r.pack()))))
    for o in cg:
        A(Ob(f'cgr:{o.name}', (lambda o: lambda r: o.fn(r.compose()))(o), local=o.local))
    A(Ob('cgr:invert', lambda r: str(~r)))
    return obs


def query_observables(pack, targets):
    """observables of a QueryContainer: its match lists on fixed targets (list of (text, molecule))"""
    obs = []
    A = obs.append
    A(Ob('str', str))
    A(Ob('storage', lambda q: (list(q), [(n, list(nb)) for n, nb in q._bonds.items()], len(q), q.bonds_count)))
    A(Ob('atoms', lambda q: [(n, repr(a)) for n, a in q.atoms()]))
    A(Ob('bonds', lambda q: [(n, k, canon(b)) for n, k, b in q.bonds()]))
    if pack:
        A(Ob('prop:_cython_compiled_query', lambda q: canon(q._cython_compiled_query)))
    for t, m in targets:
        A(Ob(f'get_mapping:py:{t}', (lambda m: lambda q: canon(_first(q.get_mapping(m, _cython=False), 50)))(m)))
        A(Ob(f'get_mapping:py:no-filter:{t}', (lambda m: lambda q: canon(_first(q.get_mapping(m, automorphism_filter=False, _cython=False), 50)))(m)))
        A(Ob(f'get_mapping:py:scope:{t}', (lambda m: lambda q: canon(_first(q.get_mapping(m, searching_scope=_half(m), _cython=False), 50)))(m)))
        if pack:
            A(Ob(f'get_mapping:compiled:{t}', (lambda m: lambda q: canon(_first(q.get_mapping(m), 50)))(m)))
            A(Ob(f'get_mapping:compiled:no-filter:{t}', (lambda m: lambda q: canon(_first(q.get_mapping(m, automorphism_filter=False), 50)))(m)))
        A(Ob(f'is_substructure:{t}', (lambda m: lambda q: (q.is_substructure(m), q <= m))(m)))
    return obs
