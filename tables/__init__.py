"""Engine T helpers: literal tables read from the text of the current tree (python AST / .pyx regex)."""
from vlib.env import Unanchored
import ast
import re

from vlib import env


def pyx_int_table(rel, name):
    """`name[:] = [ints...]` in a .pyx file -> list of ints"""
    src = env.read(rel)
    m = re.search(r'^' + re.escape(name) + r'\[:\]\s*=\s*\[(.*?)\]', src, re.S | re.M)
    if not m:
        raise Unanchored(f'{rel}: table {name} not found')
    return [int(x) for x in re.findall(r'-?\d+', m.group(1))]


def pyx_name_list(rel, name):
    src = env.read(rel)
    m = re.search(r'^' + re.escape(name) + r'\s*=\s*\[(.*?)\]', src, re.S | re.M)
    if not m:
        raise Unanchored(f'{rel}: list {name} not found')
    return [x.strip() for x in m.group(1).replace('\n', ' ').split(',') if x.strip()]


def module_ast(rel):
    return ast.parse(env.read(rel), filename=env.repo_path(rel))


def find_def(tree, qualname):
    """FunctionDef / ClassDef by dotted qualname"""
    node = tree
    for part in qualname.split('.'):
        for n in node.body:
            if isinstance(n, (ast.FunctionDef, ast.ClassDef, ast.AsyncFunctionDef)) and n.name == part:
                node = n
                break
        else:
            raise Unanchored(f'{qualname}: {part} not found')
    return node


def literal_assign(tree, name, scope=None):
    """value of a module- or class-level `name = <literal>` evaluated with ast.literal_eval"""
    body = tree.body if scope is None else find_def(tree, scope).body
    for n in body:
        if isinstance(n, ast.Assign) and any(isinstance(t, ast.Name) and t.id == name for t in n.targets):
            return ast.literal_eval(n.value)
        if isinstance(n, ast.AnnAssign) and isinstance(n.target, ast.Name) and n.target.id == name and n.value is not None:
            return ast.literal_eval(n.value)
    raise Unanchored(name)


def source_of(rel, qualname):
    src = env.read(rel)
    node = find_def(ast.parse(src), qualname)
    return ast.get_source_segment(src, node)
