"""Environment glue: locate the tree under verification, make chython importable, install the dependency shim.

VERIF_REPO (default /repo) selects the tree; every check re-reads it on every run (nothing is cached between runs).
"""
import os
import sys

VERIF = os.path.dirname(os.path.dirname(os.path.abspath(__file__)))
REPO = os.environ.get('VERIF_REPO', '/repo')
SEED = int(os.environ.get('VERIF_SEED', '0') or 0)
NPROC = int(os.environ.get('VERIF_NPROC', '0') or 0) or min(16, os.cpu_count() or 1)

_done = False


def install_shim():
    """CachedMethods 0.2.0 reads obj.__dict__ on slotted instances (Element) -> AttributeError; tolerate slotted objects.
    Changes no chython behaviour other than making class_cached_property usable on slotted classes (assumption A-shim)."""
    import CachedMethods as cm
    _S = cm._SENTINEL

    def __get__(self, obj, cls):
        if obj is None:
            return self
        d = getattr(obj, '__dict__', None)
        if d is not None:
            v = d.get(self.name, _S)
            if v is not _S:
                return v
        cc = cls.__class_cache__.get(cls)
        if cc is None:
            cc = cls.__class_cache__[cls] = {}
        v = cc.get(self.name, _S)
        if v is _S:
            v = cm._freeze(self.func(obj))
            cc[self.name] = v
        if d is not None:
            d[self.name] = v
        return v

    cm.class_cached_property.__get__ = __get__


def setup(pyx=False):
    """make `import chython` import the tree under verification; pyx=True also injects the de-cythonised extension modules"""
    global _done
    if not _done:
        if VERIF not in sys.path:
            sys.path.insert(0, VERIF)
        sys.path.insert(0, REPO)
        install_shim()
        _done = True
    if pyx:
        from cyx.inject import inject
        inject()
    import chython
    assert os.path.abspath(chython.__file__).startswith(os.path.abspath(REPO)), chython.__file__
    return chython


def repo_path(rel):
    return os.path.join(REPO, rel)


def read(rel):
    with open(repo_path(rel), encoding='utf8') as f:
        return f.read()


class Unanchored(LookupError):
    """a contract addresses a function / statement region / table of the source that the current tree does not have in that shape: the
    obligations of that contract cannot be generated from this tree.  Never a violation; reported as UNANCHORED (see vlib/report.py)."""
