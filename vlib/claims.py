"""Single source for MANIFEST.json: what each claimed check decides, by which method, at which level."""

ALL = [f'C{i:02d}' for i in range(1, 21)]

B_NOTE = ('Bounded stand-in (engine B): contracts taken from the property statement are attached to the real functions and driven over enumerated / '
          'seeded domains with stated bounds; labelled bounded in the evidence, never counted as proved. ')
F_NOTE = (' Engine F (cache coherence by frames over the AST of every covered mutator, restricted to the memoised values this property\'s own '
          'observables read) adds one obligation per mutator x cached key: no value the observables read survives an edit it depends on.')
U_NOTE = (' A contract whose function / statement region / table is not found in the addressed shape reports UNANCHORED (obligations not generated), '
          'never a violation; the run then rests on the bounded part (exit 2 when there is none).')

# pid -> dict(level, engine, text, note, technique)
CLAIMS = {
    'C01': dict(level='exploration', engine='bounded+pysym+frames',
                text=B_NOTE + 'renumbering x insertion order x re-spelling (chython random writer, RDKit) relation on decorated atlas graphs (all n! numberings '
                'for small n), a generator of symmetric spiro / fused / bridged ring systems and the corpus; collisions judged by an independent stereo-aware '
                'isomorphism oracle; the two documented gaps decided by a symmetry oracle with predicates fixed in advance. Deductive parts (P): the hashed '
                'tuples of Element.__hash__ / Bond.__hash__ are exactly the fields the mechanism names, for all values; one round of the whole real _morgan '
                'function hashes the same tuple for every enumeration order of the neighbour dict (degree <= 3, symbolic invariants).' + F_NOTE,
                note='Trusted: oracles/iso.py, o01_gaps.py, o01_stereo.py, o01_families.py, RDKit as second writer. That class ties occur only between '
                     'automorphic atoms is a statement about all graphs and not decidable by contracts (DESIGN 5). 8 defect families are known findings.' + U_NOTE,
                technique='bounded relational contract checking + symbolic execution of the real hash / refinement functions + frame analysis'),
    'C02': dict(level='exploration', engine='bounded+pysym+frames',
                text=B_NOTE + 'write -> read comparison atom by atom under the written order for all 32 format-option subsets, injectivity over enumerated '
                'small graphs and all stereoisomers of sampled molecules. Deductive parts: writer/reader tables mutually inverse, closure numbers 1..99, every '
                'element symbol (T); sign translation kernel reader(writer(sign)) = sign for every neighbour order (P, shared with C12).' + F_NOTE,
                note='Trusted: oracles/o01_stereo.py, RDKit (secondary). Traversal and closure bookkeeping for all graphs: bounded only. 5 known findings (3 shared with C01).' + U_NOTE,
                technique='bounded round-trip contract checking + table lemmas + symbolic sign-translation kernel + frame analysis'),
    'C03': dict(level='other', engine='pysym',
                text='The raises-contract of the tokenizer is decided for every input string by finite-state induction: the real loop body is run on a '
                     'representative of every reachable abstract state x character class until closure (one obligation per pair, ~470 000). What the text '
                     'denotes is decided by the bounded stand-in: exhaustive token strings, grammar-generated strings, the corpus, single-edit corruptions, '
                     'reaction and CXSMILES templates against a reference reader written from the OpenSMILES subset and RDKit.',
                note='Trusted: the tokenizer abstraction (justified by a syntactic dependency check on the current source; when the check fails the steps '
                     'count as bounded cases and only strings failing on the real function are reported), oracles/o03_refsmiles.py, RDKit as second '
                     'opinion. 48 reader defect families (keyed reason / context / outcome) are recorded as known findings, 4 were repaired.' + U_NOTE,
                technique='inductive invariant by abstract-state fixpoint over the real loop body (+ bounded differential reading)'),
    'C04': dict(level='other', engine='pysym+tables+frames',
                text='calc_implicit / check_implicit are decided for EVERY element (118), charge -4..+4, radical flag and EVERY multiset of neighbour bonds: '
                     'a finite abstraction of the neighbour multiset (explicit sum, number of aromatic bonds, capped counts of the keys the rules of that sum '
                     'mention) and execution of the real functions on one representative per abstract class against an independent re-derivation from the raw '
                     'tables (~176 000 obligations); soundness of the abstraction is checked syntactically on the current source. The compiled rule table equals '
                     'the raw tables for all 118 elements (T). Totals (formula, charge, radical, mass) and RDKit agreement are the bounded part (exhaustive '
                     'grids of 1.8M real molecules, corpus).' + F_NOTE,
                note='Trusted: oracles/o04_valence.py (re-derivation written from the table docstring; a changed table row changes the reference too - table '
                     'CONTENT is judged only by the textbook lower-bound model and RDKit in the bounded part), the syntactic dependency check. Level other: '
                     'abstraction + exhaustive execution, not SMT.' + U_NOTE,
                technique='finite abstraction + exhaustive execution of the real functions + table lemma + frame analysis (+ bounded grids vs RDKit)'),
    'C05': dict(level='exploration', engine='bounded+frames',
                text=B_NOTE + 'kekule / thiele / enumerate_kekule post-conditions (same molecule, only orders 1-3, no valence error, one aromatic form for all '
                'Kekule forms, idempotence) on 164 ring templates x substitution patterns, 17 further input classes (radicals, onium, mis-drawn rings, every '
                'repair rule, fusion heteroatoms, ring-size boundaries ...), tautomers of aza-substituted peri-fused ring systems under many atom orders, options '
                '(buffer_size, fix_tautomers), call sequences, corpus and repository test files, under renumbering and re-insertion.' + F_NOTE,
                note='Trusted: RDKit (one-directional H/charge comparison), oracles/o05_*. Whole-algorithm relations of a backtracking search: no SMT '
                     'obligation is within reach (DESIGN 5); F covers kekule, thiele and fix_resonance as mutators. 2 known findings, 2 repaired.' + U_NOTE,
                technique='bounded contract checking over a ring-system generator + frame analysis of the conversions as mutators'),
    'C06': dict(level='exploration', engine='bounded+pysym+frames',
                text=B_NOTE + 'sssr post-conditions (count, simple cycles, GF(2) independence, minimum total size, numbering-free size multiset) and ring marks '
                'on every connected graph <= 6 (quick) / <= 7 atoms and 8 atoms <= 3 rings (thorough), random assemblies, macrocycles, corpus; the two '
                'recorded gaps detected on the graph by an exact oracle. Deductive (P): the whole real rings_count equals bonds - atoms + components for symbolic degrees, bond count and component count (atoms 1-12 quick, 1-16 thorough; the callee _connected_components enters through its contract only and its body is judged by the bounded part), the whole real not_special_connectivity drops exactly the order-8 bonds in both directions (real Bond objects with symbolic order, degree 1-4); _canonic_ring is invariant under every rotation / reflection of the '
                'ring, returns one of them and starts at the minimum (symbolic atom numbers, length 3-4 quick, 3-6 thorough).' + F_NOTE,
                note='Trusted: networkx minimum_cycle_basis, oracles/o06_gaps.py (exact theta-subgraph oracle, cross-checked every run). Minimality of a '
                     'heuristic for all graphs is not decidable by contracts.' + U_NOTE,
                technique='exhaustive small-graph enumeration with cycle-space oracles + symbolic execution of the ring canonicaliser, the cyclomatic-number formula and the coordinate-bond filter + frame analysis'),
    'C07': dict(level='exploration', engine='bounded+pysym+frames',
                text=B_NOTE + 'mapping multisets against an exhaustive reference enumerator (scope, automorphism filter, operators), structural contract of '
                '_compile_query on every small pattern, lazy_product against itertools.product. Deductive (P): <, <=, >, >=, is_substructure, is_equal are '
                'defined from mapping existence for all size pairs; every query-atom class __eq__, QueryBond.__eq__ and Bond.__eq__ equal the documented '
                'predicate for all attribute values (shared with C08) - the match relation that the statement and the reference enumerator use.' + F_NOTE,
                note='Trusted: oracles/o07_ref.py (cross-checked against the brute-force enumerator every run). Completeness of the DFS matcher for all graph '
                     'pairs is not within reach of contracts here (DESIGN 5). 5 known findings, 2 repaired.' + U_NOTE,
                technique='bounded contract checking against an exhaustive reference enumerator + symbolic operator lemmas + frame analysis'),
    'C08': dict(level='proof', engine='pysym',
                text='The real __eq__ of QueryElement, AnyElement, ListElement, AnyMetal, QueryBond and Bond are executed on proxy attribute values (symbolic '
                     'atomic numbers on both sides, symbolic subsets for set-valued query attributes) and every path is discharged against an independently '
                     'written predicate; the query setters accept exactly the documented ranges (T). SMARTS parsing and matching on molecules are a bounded stand-in.',
                note='Trusted: CPython, z3, pysym proxies, reference non-metal list; assumption A-ring (ring-size sets used only through '
                     'membership/disjointness). calc_labels and SMARTS text are covered by the bounded part (checks/b08.py). 33 known findings (reader exception sites x input class and 5 others), 4 repaired.' + U_NOTE,
                technique='symbolic execution of the real predicates with per-path SMT obligations (+ bounded SMARTS enumeration)'),
    'C09': dict(level='proof', engine='pysym+cyx+frames',
                text='Per atom, bond and closure: the words built by the real regions of _cython_compiled_structure/_cython_compiled_query (cut from the '
                     'current AST by content-anchored paths, run on proxies, all paths) equal the published layout; on layout words the mask test equals the '
                     'documented clauses (which C08 proves __eq__ to be); the test expressions of the de-cythonised _isomorphism.pyx equal that mask test. The '
                     'search skeleton of the compiled generator is compared with the Python matcher on bounded pairs only.' + F_NOTE,
                note='Trusted: CPython, z3, pysym + LoopCut, the syntactic Cython translation (DESIGN 1.4), struct layout of x86-64. Documented layout '
                     'limitations (unknown H count, Lv/Ts/Og merged, rings > 65, query H > 4) are probed and listed as known findings. Quick tier runs 6 of '
                     'the 16 emptiness shapes of the query-word obligation, thorough all 16.' + U_NOTE,
                technique='symbolic execution of AST-extracted regions + bit-level SMT lemmas over the de-cythonised matcher + frame analysis'),
    'C10': dict(level='proof', engine='cyx+pysym+frames',
                text='The two codec sources are de-cythonised on every run and executed on proxies: field-by-field round trip and published byte layout for '
                     'all attribute values on enumerated shapes; inductive lemmas for the 12-bit pair stream (period 2) and the 3-bit order stream (period 8 + '
                     'tails + flush); section offsets in the declared C types vs the published formula; role slices of reaction unpack/pack_len for all counts '
                     '0..255; float16 exhaustively over all finite half patterns. The 4200 published packs and corpus round trips through the real wrappers are '
                     'the bounded part.' + F_NOTE,
                note='Trusted: the syntactic Cython translation and its C runtime (DESIGN 1.4), CPython, z3/cvc5, zlib. Traversal agreement of encoder and '
                     'decoder for arbitrary graphs is shape-bounded (enumerated shapes), composition of the lemmas is by hand. 1 known finding (cis/trans label at an atom with two double bonds), 2 repaired.' + U_NOTE,
                technique='symbolic execution of the de-cythonised codec (whole function + inductive region lemmas) with per-path SMT obligations'),
    'C11': dict(level='exploration', engine='bounded+tables',
                text=B_NOTE + 'write -> read record equality for five writer/reader pairs (default and non-default writer / reader options, every reading '
                'entry point, path / file / buffer inputs), corrupted multi-record files at every line and column, index access, repository test files, '
                'RDKit-written molblocks and records re-spelled the way other programs write them. T: V2000 charge code tables mutually inverse.',
                note='Trusted: RDKit molblock writer/reader, plane-geometry oracle, oracles/o11_*. Fixed-column text parsing is outside the SMT engines '
                     '(string theories undecided, DESIGN 5). 16 known findings (reader crash families on damaged records, index access, MRV escaping), 4 repaired.' + U_NOTE,
                technique='bounded round-trip and fault-injection contract checking (+ table lemma)'),
    'C12': dict(level='proof', engine='pysym+frames',
                text='The two permutation tables are checked key by key against permutation parity / single-end exchange; the three sign translators are '
                     'executed symbolically (real function objects, symbolic pairwise-distinct atom numbers, symbolic sign, every hydrogen slot shape) and '
                     'every path is discharged by z3; the geometric sign functions are proved antisymmetric / mirror-odd over the reals. Agreement of SMILES '
                     'marks and wedges with RDKit is a bounded stand-in (checks/b12.py), not proof.' + F_NOTE,
                note='Trusted: CPython, z3 (BV + nlsat), pysym proxies; floats treated as reals; shapes (3/4 substituents, hydrogen slots) enumerated; RDKit as '
                     'external oracle in the bounded part.' + U_NOTE,
                technique='symbolic execution of the real functions with per-path SMT obligations + table lemmas (+ bounded RDKit comparison)'),
    'C13': dict(level='other', engine='frames',
                text='Engine F decides cache coherence by frames over the real AST of every covered mutator: each write makes the cached keys whose derived '
                     'read-set contains the location stale, flushes clear them, every read inside a mutator and every exit must see no stale key (one '
                     'obligation per mutator x cache key, per read site, per kept key); the fix_stereo retry-loop lemma it relies on is proved by engine P; '
                     'the real __exit__ run on an instance with opaque slot values restores every state slot, every constructor binds every slot (T). '
                     'Histories against an independently rebuilt molecule are the bounded part. Level "other": the frame analysis is a sound-by-construction '
                     'abstract interpretation with listed assumed frame facts, not an SMT proof; five mutator groups are outside its reach (listed in the evidence).',
                note='Trusted: frames/engine.py (abstract interpreter), attribute-name based location classification, the assumed frame facts in '
                     'contracts/cache.py (order-8 class preserved by aromatisation/resonance, labels preserved by renaming/union, terminal hydrogens lie on no '
                     'ring, changed-set guards). Hydrogen recalculation is covered by the bounded histories only. 8 known findings, 10 repaired.' + U_NOTE,
                technique='typestate / frame analysis with ghost write-sets over the AST (+ SMT lemma, + bounded edit histories)'),
    'C14': dict(level='exploration', engine='bounded+frames',
                text=B_NOTE + 'conservation (heavy atoms, charge, hydrogens), validity, idempotence, explicify/implicify inverse, renumbering equivariance on '
                'corpus molecules decorated with the functional-group spellings of the rule tables and on charged heteroaromatics, for every keyword variant '
                '(fix_tautomers, keep_kekule, keep_charge ...); every rule on its own instantiated pattern and on two geminal instances sharing the wildcard '
                'atom under foreign numbering; the documented input-output pairs of the repository test table.' + F_NOTE,
                note='Trusted: oracles/o14_*.py (rule instantiation). Rule-driven rewriting through the matcher: no SMT obligation is within reach (DESIGN 5). '
                     '26 rule / resonance / tautomer defect families are known findings.' + U_NOTE,
                technique='bounded relational contract checking (conservation, idempotence, equivariance) + frame analysis'),
    'C15': dict(level='exploration', engine='bounded+tables+pysym',
                text=B_NOTE + 'role-order independence for 11 format specs, SMILES round trip of roles (8 written forms, reader options), exact dynamic labels '
                'against an independent diff of the mapped sides, ground-truth centres from recorded edits (shared atoms, ring bonds, one-sided reactions), '
                'consistent renumbering with overlapping / large numbers. Deductive: dynamic token tables injective and disjoint, is_dynamic <=> sides differ '
                '(T); hashed tuples of the dynamic classes (P).',
                note='Trusted: oracles/o15_diff.py, o15_ties.py; C01 gap filter for canonical-string comparisons. 3 known findings.' + U_NOTE,
                technique='bounded relational contract checking + table lemmas'),
    'C16': dict(level='exploration', engine='bounded',
                text=B_NOTE + 'frame post-condition wrapped around BaseReactor._patcher, _get_deleted against a reachability oracle on every labelled small '
                'graph, identity templates, masked atoms, spectator molecules, reactant order / numbering independence.',
                note='Trusted: oracles/o16_deleted.py; C01 gap filter for canonical-string comparisons. Template application through the matcher: no '
                     'deductive obligation within reach (DESIGN 5).', technique='bounded frame-contract checking'),
    'C17': dict(level='exploration', engine='bounded+pysym+frames',
                text=B_NOTE + 'path set == independent simple-path enumerator, fragment multiplicities, count-capped hashing, iterated neighbourhood hashing '
                're-implemented independently, invariance under renumbering and insertion order. Deductive (P): the folded bit windows lie below the requested '
                'length and follow active_bits for every 64-bit hash, lengths 2^1..2^20, active bits 1..8; identifier tuple fields.' + F_NOTE,
                note='Trusted: oracles/o17_ref.py, oracles/paths.py.' + U_NOTE,
                technique='bounded contract checking against independent enumerators + symbolic fold lemma + frame analysis'),
    'C18': dict(level='proof', engine='tables',
                text='Every clause is a universally quantified statement over a finite key set (118 elements x tabulated isotopes x charges x hydrogens); '
                     'the check reads the tables of the current tree and enumerates the key set completely, one obligation per key, including the executed '
                     'codec and both matchers per atom state, and the symbol / number lookups through every receiver (each element class, an atom of each, each query and dynamic class) with the memoised number table cold, so a pass is a proof for this tree.',
                note='Trusted: CPython, the IUPAC symbol list embedded in the check, regex extraction of the .pyx literal tables, the published bit layouts '
                     '(5-bit pack isotope code, matcher word III bits 46..62), CachedMethods shim. 19 reference isotopes missing from the nuclide tables are '
                     'recorded in known_findings.jsonl.' + U_NOTE,
                technique='finite table lemmas by complete enumeration (engine T)'),
    'C19': dict(level='other', engine='frames+bounded',
                text='Engine H: every hash() argument in the anchored files is structurally typed as a tuple tree of int / bool / None (no str, bytes, float or '
                     'identity-hashed object can reach an ordering decision; an argument the typing cannot see through is reported undecided).' + F_NOTE +
                     ' ' + B_NOTE + '35 observables per molecule compared across 5 interpreter processes with different PYTHONHASHSEED, first vs cached '
                     'evaluation, original vs copies made before/after caching.',
                note='Trusted: subprocess isolation; declared attribute types of Element/Bond (their setters\' isinstance guards). Set-iteration tie-breaks '
                     'depend on int values and insertion history only - bounded part. 1 known finding (stale cis/trans label after add_bond on a cumulene), 3 repaired.' + U_NOTE,
                technique='structural typing of hash inputs + frame analysis + bounded differential execution across processes and hash seeds'),
    'C20': dict(level='exploration', engine='bounded+tables+pysym',
                text=B_NOTE + 'both bridge directions against RDKit per atom/bond and by canonical SMILES, inverse relations, renumbering and re-spelling, Kekule '
                'and aromatic forms, lone atoms and H/charge grids, every dative donor element, RDKit-side variants (AddHs, mol blocks, other stereo atoms), 3D '
                'conformers. Deductive: bond type maps mutually inverse (T), chiral-tag / sign translation kernel (P, shared with C12).',
                note='Trusted: RDKit (external oracle, assumed contract on a dependency). 2 known findings.' + U_NOTE,
                technique='bounded contract checking against RDKit + table lemmas + symbolic sign-translation kernel'),
}

NOT_BUILT = 'check under construction in this session - not claimed until its command exists and passes on the unchanged tree'

NOT_APPLICABLE = {}   # pid -> reason (a property that contracts genuinely cannot decide)


def manifest():
    checks = []
    for pid in ALL:
        c = CLAIMS.get(pid)
        if not c:
            continue
        checks.append({
            'property_id': pid,
            'quick_cmd': f'bin/check {pid} --tier quick',
            'thorough_cmd': f'bin/check {pid} --tier thorough',
            'evidence_file': f'/verif/evidence/{pid}.json',
            'replay_cmd_template': 'bin/check {property} --replay {path}',
            'engine': c.get('engine', 'contracts'),
            'level_claimed': {'category': c['level'], 'text': c['text'], 'design_ref': c.get('design_ref', f'DESIGN.md §2 {pid}')},
            'level_note': c['note'],
            'technique': c['technique'],
        })
    na = [{'property_id': pid, 'reason': NOT_APPLICABLE.get(pid, NOT_BUILT)} for pid in ALL if pid not in CLAIMS]
    return {
        'version': 1,
        'setup_cmd': 'bin/setup',
        'hooks': {'guard': 'CHYTHON_VERIF', 'enable': 'none needed: contracts are sidecar files in /verif, /repo is read as is (guard reserved, unused)',
                  'baseline_off_cmd': 'cd /repo && /venv/bin/python -m pytest -ra -q -p no:cacheprovider --timeout=900 --continue-on-collection-errors',
                  'source_commits': [], 'add_only': True},
        'engines': [
            {'name': 'pysym', 'path': 'pysym/', 'serves_properties': [], 'kind_free_text': 'engine P: symbolic execution of the real function objects on z3 proxies, all paths, one closed formula per path (z3 5.1, cvc5 fallback)'},
            {'name': 'cyx', 'path': 'cyx/', 'serves_properties': [], 'kind_free_text': 'engine X: mechanical de-cythonisation of the three .pyx files on every run, then P / plain execution'},
            {'name': 'tables', 'path': 'tables/', 'serves_properties': [], 'kind_free_text': 'engine T: finite table lemmas read from the AST of the current tree, complete enumeration'},
            {'name': 'frames', 'path': 'frames/', 'serves_properties': [], 'kind_free_text': 'engines F and H: cache-coherence typestate with ghost write-sets; hash-input / numbering-parametricity typing'},
            {'name': 'bounded', 'path': 'bounded/', 'serves_properties': [], 'kind_free_text': 'engine B: the same contracts attached to the real functions at run time over enumerated domains - bounded stand-in, never counted as proved'},
        ],
        'checks': checks,
        'not_applicable': na,
        'notes': 'Contract-based deductive verification of the real code; see DESIGN.md. exit 0 held / 1 violation / 2 undecided / 3 checker crash.',
    }
