"""Single source for MANIFEST.json: what each claimed check decides, by which method, at which level."""

ALL = [f'C{i:02d}' for i in range(1, 21)]

# pid -> dict(level, text, note, technique, design_ref)
CLAIMS = {
    'C18': dict(level='proof', engine='tables',
                text='Every clause is a universally quantified statement over a finite key set (118 elements x tabulated isotopes x '
                     'charges x hydrogens); the check reads the tables of the current tree and enumerates the key set completely, '
                     'one obligation per key, so a pass is a proof for this tree.',
                note='Trusted: CPython, the IUPAC symbol list embedded in the check, regex extraction of the .pyx literal tables, the '
                     'published bit layouts (5-bit pack isotope code, matcher word III bits 46..62), CachedMethods shim. 19 reference '
                     'isotopes missing from the nuclide tables are recorded in known_findings.jsonl.',
                technique='finite table lemmas by complete enumeration (engine T)'),
    'C12': dict(level='proof', engine='pysym',
                text='The two permutation tables are checked key by key against permutation parity / single-end exchange; the three sign '
                     'translators are executed symbolically (real function objects, symbolic pairwise-distinct atom numbers, symbolic sign, every '
                     'hydrogen slot shape) and every path is discharged by z3; the geometric sign functions are proved antisymmetric / mirror-odd '
                     'over the reals. Agreement of SMILES marks and wedges with RDKit is a bounded stand-in (checks/b12.py), not proof.',
                note='Trusted: CPython, z3 (BV + nlsat), pysym proxies; floats treated as reals; shapes (3/4 substituents, hydrogen slots) '
                     'enumerated; RDKit as external oracle in the bounded part.',
                technique='symbolic execution of the real functions with per-path SMT obligations + table lemmas (+ bounded RDKit comparison)'),
    'C08': dict(level='proof', engine='pysym',
                text='The real __eq__ of QueryElement, AnyElement, ListElement, AnyMetal, QueryBond and Bond are executed on proxy attribute '
                     'values (symbolic atomic numbers on both sides, symbolic subsets for set-valued query attributes) and every path is '
                     'discharged against an independently written predicate. SMARTS parsing and matching on molecules are a bounded stand-in.',
                note='Trusted: CPython, z3, pysym proxies, reference non-metal list; assumption A-ring (ring-size sets used only through '
                     'membership/disjointness). calc_labels and SMARTS text are covered by the bounded part (checks/b08.py).',
                technique='symbolic execution of the real predicates with per-path SMT obligations (+ bounded SMARTS enumeration)'),
    'C09': dict(level='proof', engine='pysym+cyx',
                text='Per atom, bond and closure: the words built by the real regions of _cython_compiled_structure/_cython_compiled_query '
                     '(cut from the current AST, run on proxies, all paths) equal the published layout; on layout words the mask test equals the '
                     'documented clauses (which C08 proves __eq__ to be); the test expressions of the de-cythonised _isomorphism.pyx equal that '
                     'mask test. The search skeleton of the compiled generator is compared with the Python matcher on bounded pairs only.',
                note='Trusted: CPython, z3, pysym + LoopCut, the syntactic Cython translation (DESIGN 1.4), struct layout of x86-64. Documented '
                     'layout limitations (unknown H count, Lv/Ts/Og merged, rings > 65, query H > 4) are probed and listed as known findings. '
                     'Quick tier runs 6 of the 16 emptiness shapes of the query-word obligation, thorough all 16.',
                technique='symbolic execution of AST-extracted regions + bit-level SMT lemmas over the de-cythonised matcher'),
}

NOT_BUILT = 'check under construction in this session - not claimed until its command exists and passes on the unchanged tree'

NOT_APPLICABLE = {}   # pid -> reason (a property that contracts genuinely cannot decide)


def manifest():
    checks = []
    for pid in ALL:
        c = CLAIMS.get(pid)
        if not c:
            continue
        checks.append({
            'property_id': pid,
            'quick_cmd': f'bin/check {pid} --tier quick',
            'thorough_cmd': f'bin/check {pid} --tier thorough',
            'evidence_file': f'/verif/evidence/{pid}.json',
            'replay_cmd_template': 'bin/check {property} --replay {path}',
            'engine': c.get('engine', 'contracts'),
            'level_claimed': {'category': c['level'], 'text': c['text'], 'design_ref': c.get('design_ref', f'DESIGN.md §2 {pid}')},
            'level_note': c['note'],
            'technique': c['technique'],
        })
    na = [{'property_id': pid, 'reason': NOT_APPLICABLE.get(pid, NOT_BUILT)} for pid in ALL if pid not in CLAIMS]
    return {
        'version': 1,
        'setup_cmd': 'bin/setup',
        'hooks': {'guard': 'CHYTHON_VERIF', 'enable': 'none needed: contracts are sidecar files in /verif, /repo is read as is (guard reserved, unused)',
                  'baseline_off_cmd': 'cd /repo && /venv/bin/python -m pytest -ra -q -p no:cacheprovider --timeout=900 --continue-on-collection-errors',
                  'source_commits': [], 'add_only': True},
        'engines': [
            {'name': 'pysym', 'path': 'pysym/', 'serves_properties': [], 'kind_free_text': 'engine P: symbolic execution of the real function objects on z3 proxies, all paths, one closed formula per path (z3 5.1, cvc5 fallback)'},
            {'name': 'cyx', 'path': 'cyx/', 'serves_properties': [], 'kind_free_text': 'engine X: mechanical de-cythonisation of the three .pyx files on every run, then P / plain execution'},
            {'name': 'tables', 'path': 'tables/', 'serves_properties': [], 'kind_free_text': 'engine T: finite table lemmas read from the AST of the current tree, complete enumeration'},
            {'name': 'frames', 'path': 'frames/', 'serves_properties': [], 'kind_free_text': 'engines F and H: cache-coherence typestate with ghost write-sets; hash-input / numbering-parametricity typing'},
            {'name': 'bounded', 'path': 'bounded/', 'serves_properties': [], 'kind_free_text': 'engine B: the same contracts attached to the real functions at run time over enumerated domains - bounded stand-in, never counted as proved'},
        ],
        'checks': checks,
        'not_applicable': na,
        'notes': 'Contract-based deductive verification of the real code; see DESIGN.md. exit 0 held / 1 violation / 2 undecided / 3 checker crash.',
    }
