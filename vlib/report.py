"""Verdict bookkeeping shared by every check: obligations, bounded cases, violations, known findings, evidence, exit code.

exit 0 held / 1 violation (VIOLATION line + replay file) / 2 undecided / 3 checker crash.
`unknown`, timeouts and tracebacks of the checker are never mapped to a violation.
"""
import hashlib
import json
import os
import re
import sys
import time
import traceback

from . import env

KNOWN_FILE = os.path.join(env.VERIF, 'known_findings.jsonl')


def load_known():
    known, fixed = {}, {}
    if os.path.exists(KNOWN_FILE):
        for line in open(KNOWN_FILE, encoding='utf8'):
            line = line.strip()
            if not line or line.startswith('#'):
                continue
            r = json.loads(line)
            (known if r['status'] == 'known' else fixed)[(r['property'], r['key'])] = r
    return known, fixed


def _slug(s):
    s = re.sub(r'[^A-Za-z0-9_.+-]+', '_', s)[:80].strip('_')
    return s or 'x'


def _js(o):
    """best-effort JSON view of witnesses"""
    if isinstance(o, (str, int, float, bool)) or o is None:
        return o
    if isinstance(o, bytes):
        return {'bytes_hex': o.hex()}
    if isinstance(o, dict):
        return {str(k): _js(v) for k, v in o.items()}
    if isinstance(o, (list, tuple, set, frozenset)):
        return [_js(x) for x in o]
    return repr(o)


class Run:
    def __init__(self, pid, level, tier=None):
        self.pid = pid
        self.level = level
        self.tier = tier or os.environ.get('VERIF_TIER') or 'quick'
        if self.tier not in ('quick', 'thorough'):
            self.tier = 'quick'
        self.seed = env.SEED
        self.t0 = time.time()
        self.functions = {}          # "file::qualname" -> sha256 of the text under contract
        self.obligs = []             # (name, engine, status, backend, seconds)
        self.by_engine = {}
        self.solver_s = 0.0
        self.cases = 0
        self.nontrivial = set()
        self.samples = []
        self.ob_samples = []
        self.violations = []
        self.known_hits = []
        self.undecided = []
        self.assumptions = []
        self.bounds = []
        self.notes = {}
        self.known, self.fixed = load_known()
        self._seen_v = {}

    # ---- deductive side -------------------------------------------------------------------------------------------
    def under_contract(self, file, qualname, text=None):
        if text is None:
            text = ''
        self.functions[f'{file}::{qualname}'] = hashlib.sha256(text.encode()).hexdigest()[:16]

    def oblig(self, name, ok, engine='P', backend='z3', seconds=0.0, sample=None, known=False):
        """ok: True discharged, False failed (caller must also call violation(); known=True when that returned 'known'),
        None undecided"""
        status = 'discharged' if ok is True else ('failed-known' if known else 'failed') if ok is False else 'undecided'
        self.obligs.append((name, engine, status, backend, round(seconds, 4)))
        e = self.by_engine.setdefault(engine, {'obligations': 0, 'discharged': 0, 'backends': {}})
        if status == 'failed-known':
            e['failed_known_findings'] = e.get('failed_known_findings', 0) + 1
        else:
            e['obligations'] += 1
        if ok is True:
            e['discharged'] += 1
        e['backends'][backend] = e['backends'].get(backend, 0) + 1
        self.solver_s += seconds
        if ok is None:
            self.undecided.append(name)
        if len(self.ob_samples) < 12 and (sample is not None or len(self.ob_samples) < 6):
            self.ob_samples.append({'obligation': name, 'engine': engine, 'status': status, 'backend': backend,
                                    **({'detail': _js(sample)} if sample is not None else {})})

    def obligs_bulk(self, rows):
        for r in rows:
            self.oblig(*r) if not isinstance(r, dict) else self.oblig(**r)

    # ---- bounded side ---------------------------------------------------------------------------------------------
    def case(self, n=1, key=None, sample=None):
        self.cases += n
        if key is not None:
            self.nontrivial.add(key)
        if sample is not None and len(self.samples) < 8:
            self.samples.append(_js(sample))

    def bound(self, text):
        if text not in self.bounds:
            self.bounds.append(text)

    def assume(self, *texts):
        for t in texts:
            if t not in self.assumptions:
                self.assumptions.append(t)

    # ---- violations -----------------------------------------------------------------------------------------------
    def violation(self, key, what, witness=None, obligation=None, solver_output=None, native=None,
                  found_input=True, extra=None):
        """key identifies the specific input / obligation+witness; matched against known_findings.jsonl"""
        if (self.pid, key) in self._seen_v:
            return self._seen_v[(self.pid, key)]
        self._seen_v[(self.pid, key)] = 'known' if (self.pid, key) in self.known else 'new'
        k = self.known.get((self.pid, key))
        if k is not None:
            self.known_hits.append(k)
            print(f'KNOWN-FINDING: property={self.pid} {k["what"]} [{key}]', flush=True)
            return 'known'
        d = os.path.join(env.VERIF, 'replays', self.pid)
        os.makedirs(d, exist_ok=True)
        path = os.path.join(d, _slug(key) + '.json')
        rec = {'property': self.pid, 'key': key, 'what': what, 'obligation': obligation, 'witness': _js(witness),
               'solver_output': solver_output, 'native_outcome': _js(native), 'found_failing_input': bool(found_input),
               'repo': env.REPO, 'tier': self.tier, 'seed': self.seed,
               'replay_cmd': f'bin/check {self.pid} --replay {path}', **(extra or {})}
        with open(path, 'w') as f:
            json.dump(rec, f, indent=1)
        self.violations.append(rec)
        tail = '' if found_input else ' no-failing-input-found'
        print(f'VIOLATION property={self.pid} replay={path}{tail}', flush=True)
        print(f'  {what}', flush=True)
        return 'new'

    # ---- verdict --------------------------------------------------------------------------------------------------
    def unanchored(self, group, reason):
        """a contract group whose obligations could not be generated from this tree (function / region / table not found in the addressed shape)"""
        if not hasattr(self, 'unanch'):
            self.unanch = []
        self.unanch.append({'contract': group, 'reason': str(reason)[:300]})
        print(f'UNANCHORED property={self.pid} contract={group} reason={str(reason)[:200]}', flush=True)

    def finish(self, rule='', explanation='', checker_cmd='', trusted_base=(), extra=None, crashed=None):
        n_known = sum(1 for o in self.obligs if o[2] == 'failed-known')
        n_ob = len(self.obligs) - n_known
        n_dis = sum(1 for o in self.obligs if o[2] == 'discharged')
        cov = {
            'obligations': n_ob, 'discharged': n_dis,
            'checker_cmd': checker_cmd or f'bin/check {self.pid} --tier {self.tier}',
            'trusted_base': list(trusted_base) or ['CPython 3.12', 'z3 5.1', 'vlib/pysym'],
            'per_engine': self.by_engine,
            'solver_seconds': round(self.solver_s, 2),
            'functions_under_contract': self.functions,
            'undecided': self.undecided[:50],
            'evaluations': self.cases, 'distinct_nontrivial': len(self.nontrivial),
            'rule': rule, 'explanation': explanation,
            'samples': (self.samples + self.ob_samples) or ['(none)'],
            'bounded_stand_in': {'bounded': True, 'bounds': self.bounds, 'never_counted_as_proved': True} if self.cases else None,
            'known_findings_hit': [k['key'] for k in self.known_hits],
            'obligations_failed_on_known_findings': n_known,
        }
        unanch = getattr(self, 'unanch', [])
        if unanch:
            cov['obligations_not_generated'] = unanch
        if extra:
            cov.update(extra)
        if self.notes:
            cov['notes'] = self.notes
        ev = {'property_id': self.pid, 'tier': self.tier, 'seed': self.seed, 'level': self.level, 'coverage': cov,
              'assumptions': self.assumptions, 'wall_s': round(time.time() - self.t0, 2),
              'violations': len(self.violations)}
        # the evidence file of record is written only by a full run against the tree under verification (/repo); development runs against a scratch
        # tree (VERIF_REPO) or of selected parts (--only) go to the ignored scratch directory
        sub = 'evidence' if os.path.abspath(env.REPO) == '/repo' and not getattr(self, 'only', None) else os.path.join('scratch', 'evidence')
        os.makedirs(os.path.join(env.VERIF, sub), exist_ok=True)
        with open(os.path.join(env.VERIF, sub, f'{self.pid}.json'), 'w') as f:
            json.dump(ev, f, indent=1)
        if crashed:
            print(f'CHECKER-CRASH property={self.pid}: {crashed}', flush=True)
            return 3
        if self.violations:
            return 1
        if self.undecided:
            print(f'UNDECIDED property={self.pid}: {len(self.undecided)} obligations, e.g. {self.undecided[:3]}', flush=True)
            return 2
        if n_ob == 0 and self.cases == 0:
            print(f'CHECKER-CRASH property={self.pid}: zero obligations and zero cases (vacuous run)', flush=True)
            return 3
        if unanch and self.cases == 0:
            # nothing else exercised the clause the missing contract was about: undecided, never "held"
            print(f'UNDECIDED property={self.pid}: {len(unanch)} contract group(s) could not be anchored in this tree and no bounded stand-in ran', flush=True)
            return 2
        print(f'OK property={self.pid} tier={self.tier} obligations={n_dis}/{n_ob} cases={self.cases} '
              f'nontrivial={len(self.nontrivial)} known={len(self.known_hits)} wall={ev["wall_s"]}s'
              + (f' unanchored-contract-groups={len(unanch)} (bounded stand-in ran)' if unanch else ''), flush=True)
        return 0


def pmap(fn, items, nproc=None, chunksize=1):
    """fork-pool map preserving order; worker exceptions propagate (-> exit 3 in the driver)"""
    items = list(items)
    nproc = min(nproc or env.NPROC, max(1, len(items)))
    if nproc <= 1:
        return [fn(x) for x in items]
    import multiprocessing as mp
    ctx = mp.get_context('fork')
    with ctx.Pool(nproc) as pool:
        return pool.map(fn, items, chunksize=chunksize)
