"""bin/check <ID> [--tier quick|thorough] [--replay FILE]"""
import argparse
import importlib
import json
import os
import sys
import traceback

from . import env
from .report import Run


def _bounded_only(pid):
    """development fallback: checks/bNN.py alone (no deductive part yet)"""
    import types
    b = importlib.import_module(f'checks.b{pid[1:]}')
    mod = types.SimpleNamespace(LEVEL='exploration', FINISH=dict(rule=getattr(b, 'RULE', 'bounded stand-in only'), explanation='bounded stand-in only'))

    def main(run):
        env.setup()
        b.bounded(run)
        return mod.FINISH
    mod.main = main
    if hasattr(b, 'replay'):
        mod.replay = b.replay
    return mod


def main(argv=None):
    ap = argparse.ArgumentParser()
    ap.add_argument('pid')
    ap.add_argument('--tier', default=os.environ.get('VERIF_TIER') or 'quick')
    ap.add_argument('--replay')
    ap.add_argument('--only', default=None, help='comma separated engine parts to run (development)')
    a = ap.parse_args(argv)
    pid = a.pid.upper()
    try:
        mod = importlib.import_module(f'checks.{pid.lower()}')
    except ModuleNotFoundError as e:
        if e.name != f'checks.{pid.lower()}':
            raise
        mod = _bounded_only(pid)
    if a.replay:
        rec = json.load(open(a.replay))
        print(json.dumps({k: rec.get(k) for k in ('property', 'key', 'what', 'obligation', 'witness', 'native_outcome')}, indent=1))
        if rec.get('obligation') and not str(rec.get('key', '')).startswith('b:'):
            # a failed obligation of a deductive part (P / X / T / F / H): regenerate the obligations of those parts from the current tree and see
            # whether the same one fails again (the recorded counter-model / witness is printed above)
            import contextlib
            import io
            run = Run(pid, mod.LEVEL, a.tier)
            run.only = {'P', 'X', 'T', 'F', 'H'}
            buf = io.StringIO()
            with contextlib.redirect_stdout(buf):
                mod.main(run)
            hit = [v for v in run.violations if v['key'] == rec['key']] or [k for k in run.known_hits if k.get('key') == rec['key']]
            if hit:
                print('obligation fails again on this tree:', hit[0].get('what', '')[:300])
            print('REPLAY', 'violation reproduced' if hit else 'property holds on this tree for the witness (the obligation is discharged)')
            return 1 if hit else 0
        if hasattr(mod, 'replay'):
            env.setup()
            ok = mod.replay(rec)
            print('REPLAY', 'property holds on this tree for the witness' if ok else 'violation reproduced')
            return 0 if ok else 1
        return 1
    run = Run(pid, mod.LEVEL, a.tier)
    run.only = set(a.only.split(',')) if a.only else None
    try:
        fin = mod.main(run)
    except SystemExit:
        raise
    except BaseException as e:  # checker crash, never a violation
        traceback.print_exc()
        return run.finish(crashed=f'{type(e).__name__}: {e}', **getattr(mod, 'FINISH', {}))
    return run.finish(**(fin or getattr(mod, 'FINISH', {})))


if __name__ == '__main__':
    sys.exit(main())
