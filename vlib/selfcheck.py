"""setup-time smoke test: the interpreter has z3, cvc5, chython (through the shim) and RDKit; proxies agree with CPython."""
import sys
from . import env


def main():
    import z3, cvc5, networkx, jsonschema  # noqa
    ch = env.setup()
    m = ch.smiles('c1ccccc1O')
    assert len(m) == 7 and m.rings_count == 1, str(m)
    from rdkit import Chem  # noqa
    from pysym import selftest
    selftest.run()
    print('setup ok: z3', z3.get_version_string(), 'chython from', env.REPO)


if __name__ == '__main__':
    main()
