from .core import *  # noqa
from .core import bv, zbool, rl
