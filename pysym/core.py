"""Engine P: run REAL Python function objects on proxy values, enumerate all paths, discharge one closed formula per path.

* SymInt   - z3 BitVec(W=128), Python int semantics (floor //, %, arithmetic >>); every +,-,*,<< adds a no-wrap side
             condition that becomes an obligation of the path (ints are mathematical iff those hold).
* SymBool  - z3 Bool; `__bool__` asks the path scheduler (fork).
* SymReal  - z3 Real (NRA obligations; floats treated as reals - stated assumption).
* explore  - depth-first over decision prefixes by re-execution.  Lazy: no solver call at a branch; an infeasible
             path is discharged by its own unsatisfiable path condition.  A condition decided once on a path is not asked again.
* concretisation (`__index__`, `__hash__`) forks over the feasible values and records the chosen value in the prefix.
"""
import time

import z3

W = 128
MAX_DECISIONS = 4000
MAX_PATHS = 400000


class Infeasible(Exception):
    pass


class Budget(Exception):
    pass


class Ctx:
    cur = None

    def __init__(self, prefix, base):
        self.decisions = list(prefix)    # entries: bool | ('c', value, taken)
        self.pos = 0
        self.pc = []
        self.side = []                   # no-wrap / domain side conditions (must hold under pc)
        self.base = list(base)
        self.memo = {}
        self.keep = []
        self.facts = set()           # ids of base constraints: decided True without forking
        for b in self.base:
            try:
                sb = z3.simplify(b)
                self.facts.add(sb.get_id())
                self.keep.append(sb)
            except Exception:
                pass

    # -- branching -------------------------------------------------------------------------------------------------
    def decide(self, cond):
        c = z3.simplify(cond)
        if z3.is_true(c):
            return True
        if z3.is_false(c):
            return False
        if z3.is_not(c):
            return not self.decide(c.arg(0))
        k = c.get_id()
        if k in self.memo:
            return self.memo[k]
        if k in self.facts:
            return True
        if self.pos < len(self.decisions):
            taken = self.decisions[self.pos]
            if not isinstance(taken, bool):
                raise RuntimeError('decision prefix misaligned (non-deterministic function under proof)')
        else:
            if len(self.decisions) >= MAX_DECISIONS:
                raise Budget('decision depth')
            taken = True
            self.decisions.append(True)
        self.pos += 1
        self.pc.append(c if taken else z3.Not(c))
        self.memo[k] = taken
        self.keep.append(c)
        return taken

    def concretize(self, zexpr):
        zs = z3.simplify(zexpr)
        if z3.is_bv_value(zs):
            return zs.as_signed_long()
        while True:
            if self.pos < len(self.decisions):
                ent = self.decisions[self.pos]
                if isinstance(ent, bool):
                    raise RuntimeError('decision prefix misaligned (concretisation)')
                _, v, taken = ent
            else:
                if len(self.decisions) >= MAX_DECISIONS:
                    raise Budget('decision depth')
                s = z3.Solver()
                s.set('timeout', 30000)
                s.add(*self.base, *self.pc)
                r = s.check()
                if r == z3.unsat:
                    raise Infeasible
                if r != z3.sat:
                    raise Budget('concretisation unknown')
                v = s.model().eval(zs, model_completion=True).as_signed_long()
                taken = True
                self.decisions.append(('c', v, True))
            self.pos += 1
            eq = zs == z3.BitVecVal(v, W)
            self.pc.append(eq if taken else z3.Not(eq))
            if taken:
                return v


def explore(fn, base=()):
    """run fn() under every decision sequence; yields (pc, side, kind, value) with kind in 'ok'|'exc'"""
    prefix = []
    npaths = 0
    while True:
        ctx = Ctx(prefix, base)
        Ctx.cur = ctx
        try:
            res = ('ok', fn())
        except Infeasible:
            res = None
        except Budget:
            raise
        except RecursionError:
            raise
        except Exception as e:  # the function under proof raised on this path
            res = ('exc', e)
        finally:
            Ctx.cur = None
        if len(ctx.decisions) > ctx.pos and ctx.pos < len(prefix):
            raise RuntimeError('decision prefix not consumed (non-deterministic function under proof)')
        npaths += 1
        if npaths > MAX_PATHS:
            raise Budget('path count')
        if res is not None:
            yield list(ctx.pc), list(ctx.side), res[0], res[1]
        d = ctx.decisions
        while d and (d[-1] is False or (not isinstance(d[-1], bool) and d[-1][2] is False)):
            d.pop()
        if not d:
            return
        d[-1] = False if isinstance(d[-1], bool) else ('c', d[-1][1], False)
        prefix = d


# ---- proxies ------------------------------------------------------------------------------------------------------

def bv(x):
    """z3 bit-vector view of an int-like value (None if not int-like)"""
    if isinstance(x, SymInt):
        return x.z
    if isinstance(x, SymBool):
        return z3.If(x.z, z3.BitVecVal(1, W), z3.BitVecVal(0, W))
    if isinstance(x, bool):
        return z3.BitVecVal(int(x), W)
    if isinstance(x, int):
        return z3.BitVecVal(x, W)
    return None


def zbool(x):
    if isinstance(x, SymBool):
        return x.z
    if isinstance(x, SymInt):
        return x.z != 0
    if x is NotImplemented:
        raise TypeError('NotImplemented is not a truth value here')
    return z3.BoolVal(bool(x))


def _side(cond):
    c = z3.simplify(cond)
    if not z3.is_true(c) and Ctx.cur is not None:
        Ctx.cur.side.append(c)


class SymBool:
    __slots__ = ('z',)

    def __init__(self, z):
        self.z = z

    def __bool__(self):
        return Ctx.cur.decide(self.z)

    def _b(self, o):
        if isinstance(o, SymBool):
            return o.z
        if isinstance(o, bool):
            return z3.BoolVal(o)
        return None

    def __eq__(self, o):
        b = self._b(o)
        if b is not None:
            return SymBool(self.z == b)
        i = bv(o)
        if i is not None:
            return SymBool(bv(self) == i)
        return False

    def __ne__(self, o):
        r = self.__eq__(o)
        return SymBool(z3.Not(r.z)) if isinstance(r, SymBool) else not r

    def __and__(self, o):
        b = self._b(o)
        return SymBool(z3.And(self.z, b)) if b is not None else SymInt(bv(self)) & o

    __rand__ = __and__

    def __or__(self, o):
        b = self._b(o)
        return SymBool(z3.Or(self.z, b)) if b is not None else SymInt(bv(self)) | o

    __ror__ = __or__

    def __xor__(self, o):
        b = self._b(o)
        return SymBool(z3.Xor(self.z, b)) if b is not None else SymInt(bv(self)) ^ o

    __rxor__ = __xor__

    def __int__(self):
        return 1 if bool(self) else 0

    def __index__(self):
        return 1 if bool(self) else 0

    def __hash__(self):
        return hash(bool(self))

    def _i(self):
        return SymInt(bv(self))

    def __add__(self, o): return self._i() + o
    def __radd__(self, o): return o + self._i()
    def __sub__(self, o): return self._i() - o
    def __rsub__(self, o): return o - self._i()
    def __mul__(self, o): return self._i() * o
    def __rmul__(self, o): return o * self._i()
    def __lshift__(self, o): return self._i() << o
    def __rlshift__(self, o): return o << self._i()
    def __lt__(self, o): return self._i() < o
    def __le__(self, o): return self._i() <= o
    def __gt__(self, o): return self._i() > o
    def __ge__(self, o): return self._i() >= o
    def __neg__(self): return -self._i()
    def __repr__(self): return f'SymBool({z3.simplify(self.z)})'


def _floordiv(a, b):
    q = a / b                      # bvsdiv: truncation toward zero
    r = z3.SRem(a, b)
    adj = z3.And(r != 0, (r < 0) != (b < 0))
    return z3.If(adj, q - 1, q)


def _pymod(a, b):
    r = z3.SRem(a, b)
    adj = z3.And(r != 0, (r < 0) != (b < 0))
    return z3.If(adj, r + b, r)


class SymInt:
    __slots__ = ('z',)

    def __init__(self, z):
        self.z = z

    # arithmetic (no-wrap side conditions make the 128-bit vectors mathematical integers)
    def __add__(s, o):
        b = bv(o)
        if b is None:
            return NotImplemented
        _side(z3.And(z3.BVAddNoOverflow(s.z, b, True), z3.BVAddNoUnderflow(s.z, b)))
        return SymInt(s.z + b)

    __radd__ = __add__

    def __sub__(s, o):
        b = bv(o)
        if b is None:
            return NotImplemented
        _side(z3.And(z3.BVSubNoOverflow(s.z, b), z3.BVSubNoUnderflow(s.z, b, True)))
        return SymInt(s.z - b)

    def __rsub__(s, o):
        b = bv(o)
        if b is None:
            return NotImplemented
        _side(z3.And(z3.BVSubNoOverflow(b, s.z), z3.BVSubNoUnderflow(b, s.z, True)))
        return SymInt(b - s.z)

    def __mul__(s, o):
        b = bv(o)
        if b is None:
            return NotImplemented
        if isinstance(o, int) and not isinstance(o, bool):
            k = abs(o)
            if k > 1:       # constant factor: the no-wrap condition is a range check (much cheaper than the bit-blasted multiplier check)
                lim = ((1 << (W - 1)) - 1) // k
                _side(z3.And(s.z <= z3.BitVecVal(lim, W), s.z >= z3.BitVecVal(-lim, W)))
        else:
            _side(z3.And(z3.BVMulNoOverflow(s.z, b, True), z3.BVMulNoUnderflow(s.z, b)))
        return SymInt(s.z * b)

    __rmul__ = __mul__

    def __neg__(s):
        _side(s.z != z3.BitVecVal(1 << (W - 1), W))
        return SymInt(-s.z)

    def __pos__(s):
        return s

    def __abs__(s):
        return SymInt(z3.If(s.z < 0, -s.z, s.z))

    def __invert__(s):
        return SymInt(~s.z)

    def __floordiv__(s, o):
        b = bv(o)
        if b is None:
            return NotImplemented
        if isinstance(o, int) and not isinstance(o, bool) and o > 0 and o & (o - 1) == 0:
            return SymInt(s.z >> (o.bit_length() - 1))        # floor division by 2^k is an arithmetic shift
        if Ctx.cur.decide(b == 0):
            raise ZeroDivisionError('integer division or modulo by zero')
        return SymInt(_floordiv(s.z, b))

    def __rfloordiv__(s, o):
        b = bv(o)
        if b is None:
            return NotImplemented
        if Ctx.cur.decide(s.z == 0):
            raise ZeroDivisionError('integer division or modulo by zero')
        return SymInt(_floordiv(b, s.z))

    def __mod__(s, o):
        b = bv(o)
        if b is None:
            return NotImplemented
        if isinstance(o, int) and not isinstance(o, bool) and o > 0 and o & (o - 1) == 0:
            return SymInt(s.z & z3.BitVecVal(o - 1, W))      # modulus 2^k: Python's result is the low k bits (also for negative values)
        if Ctx.cur.decide(b == 0):
            raise ZeroDivisionError('integer division or modulo by zero')
        return SymInt(_pymod(s.z, b))

    def __rmod__(s, o):
        b = bv(o)
        if b is None:
            return NotImplemented
        if Ctx.cur.decide(s.z == 0):
            raise ZeroDivisionError('integer division or modulo by zero')
        return SymInt(_pymod(b, s.z))

    # bit operations (two's complement, as Python's on unbounded ints while no-wrap holds)
    def __or__(s, o):
        b = bv(o)
        return NotImplemented if b is None else SymInt(s.z | b)

    __ror__ = __or__

    def __and__(s, o):
        b = bv(o)
        return NotImplemented if b is None else SymInt(s.z & b)

    __rand__ = __and__

    def __xor__(s, o):
        b = bv(o)
        return NotImplemented if b is None else SymInt(s.z ^ b)

    __rxor__ = __xor__

    @staticmethod
    def _shl(a, b):
        if Ctx.cur is not None and Ctx.cur.decide(b < 0):
            raise ValueError('negative shift count')
        r = a << b
        _side(z3.And(z3.ULT(b, W), (r >> b) == a))
        return SymInt(r)

    @staticmethod
    def _shr(a, b):
        if Ctx.cur is not None and Ctx.cur.decide(b < 0):
            raise ValueError('negative shift count')
        return SymInt(z3.If(z3.UGE(b, W), z3.If(a < 0, z3.BitVecVal(-1, W), z3.BitVecVal(0, W)), a >> b))

    def __lshift__(s, o):
        b = bv(o)
        return NotImplemented if b is None else SymInt._shl(s.z, b)

    def __rlshift__(s, o):
        b = bv(o)
        return NotImplemented if b is None else SymInt._shl(b, s.z)

    def __rshift__(s, o):
        b = bv(o)
        return NotImplemented if b is None else SymInt._shr(s.z, b)

    def __rrshift__(s, o):
        b = bv(o)
        return NotImplemented if b is None else SymInt._shr(b, s.z)

    # comparisons
    def _cmp(s, o, f):
        b = bv(o)
        if b is None:
            return NotImplemented
        return SymBool(f(s.z, b))

    def __eq__(s, o):
        b = bv(o)
        if b is None:
            return False
        return SymBool(s.z == b)

    def __ne__(s, o):
        b = bv(o)
        if b is None:
            return True
        return SymBool(s.z != b)

    def __lt__(s, o): return s._cmp(o, lambda a, b: a < b)
    def __le__(s, o): return s._cmp(o, lambda a, b: a <= b)
    def __gt__(s, o): return s._cmp(o, lambda a, b: a > b)
    def __ge__(s, o): return s._cmp(o, lambda a, b: a >= b)

    def __bool__(s):
        return Ctx.cur.decide(s.z != 0)

    def __index__(s):
        v = Ctx.cur.concretize(s.z)
        s.z = z3.BitVecVal(v, W)
        return v

    __int__ = __index__

    def __hash__(s):
        return hash(s.__index__())

    def __repr__(s):
        return f'SymInt({z3.simplify(s.z)})'


def sym_int(name, lo=None, hi=None, dom=None, bits=None):
    """fresh symbolic int; optional inclusive bounds appended to `dom` (a list of z3 constraints).
    bits: the value is a zero-extended `bits`-wide variable (non-negative, < 2**bits) - same meaning, much cheaper to bit-blast"""
    v = z3.BitVec(name, W) if bits is None else z3.ZeroExt(W - bits, z3.BitVec(name, bits))
    if dom is not None:
        if lo is not None:
            dom.append(v >= lo)
        if hi is not None:
            dom.append(v <= hi)
    return SymInt(v)


def sym_bool(name):
    return SymBool(z3.Bool(name))


# ---- reals ----------------------------------------------------------------------------------------------------------

def rl(x):
    if isinstance(x, SymReal):
        return x.z
    if isinstance(x, bool):
        return z3.RealVal(int(x))
    if isinstance(x, (int, float)):
        return z3.RealVal(repr(x) if isinstance(x, float) else x)
    return None


class SymReal:
    __slots__ = ('z',)

    def __init__(self, z):
        self.z = z

    def _bin(s, o, f):
        b = rl(o)
        return NotImplemented if b is None else SymReal(f(s.z, b))

    def _rbin(s, o, f):
        b = rl(o)
        return NotImplemented if b is None else SymReal(f(b, s.z))

    def __add__(s, o): return s._bin(o, lambda a, b: a + b)
    def __radd__(s, o): return s._rbin(o, lambda a, b: a + b)
    def __sub__(s, o): return s._bin(o, lambda a, b: a - b)
    def __rsub__(s, o): return s._rbin(o, lambda a, b: a - b)
    def __mul__(s, o): return s._bin(o, lambda a, b: a * b)
    def __rmul__(s, o): return s._rbin(o, lambda a, b: a * b)
    def __neg__(s): return SymReal(-s.z)
    def __pos__(s): return s

    def __truediv__(s, o):
        b = rl(o)
        if b is None:
            return NotImplemented
        if Ctx.cur.decide(b == 0):
            raise ZeroDivisionError('float division by zero')
        return SymReal(s.z / b)

    def __rtruediv__(s, o):
        b = rl(o)
        if b is None:
            return NotImplemented
        if Ctx.cur.decide(s.z == 0):
            raise ZeroDivisionError('float division by zero')
        return SymReal(b / s.z)

    def _cmp(s, o, f):
        b = rl(o)
        return NotImplemented if b is None else SymBool(f(s.z, b))

    def __eq__(s, o):
        b = rl(o)
        return False if b is None else SymBool(s.z == b)

    def __ne__(s, o):
        b = rl(o)
        return True if b is None else SymBool(s.z != b)

    def __lt__(s, o): return s._cmp(o, lambda a, b: a < b)
    def __le__(s, o): return s._cmp(o, lambda a, b: a <= b)
    def __gt__(s, o): return s._cmp(o, lambda a, b: a > b)
    def __ge__(s, o): return s._cmp(o, lambda a, b: a >= b)
    def __bool__(s): return Ctx.cur.decide(s.z != 0)
    __hash__ = None

    def __repr__(s):
        return f'SymReal({z3.simplify(s.z)})'


def sym_real(name):
    return SymReal(z3.Real(name))


# ---- finite-universe sets ---------------------------------------------------------------------------------------------

class SymSmallSet:
    """set/tuple with symbolic membership over a concrete finite universe (sorted). Iteration only through guarded_for."""

    def __init__(self, name, universe):
        self.name = name
        self.u = sorted(universe)
        self.m = {k: z3.Bool(f'{name}_{k}') for k in self.u}

    def nonempty(self):
        return z3.Or(*self.m.values())

    def __bool__(self):
        return Ctx.cur.decide(self.nonempty())

    def __len__(self):
        raise TypeError('len() of SymSmallSet must be taken with pysym.slen')

    def __contains__(self, x):
        if isinstance(x, SymInt):
            return SymBool(z3.Or(*[z3.And(b, x.z == k) for k, b in self.m.items()]))
        if isinstance(x, SymBool):
            x = SymInt(bv(x))
            return SymBool(z3.Or(*[z3.And(b, x.z == k) for k, b in self.m.items()]))
        return SymBool(self.m.get(x, z3.BoolVal(False)))

    def isdisjoint(self, o):
        if isinstance(o, SymSmallSet):
            return SymBool(z3.Not(z3.Or(*[z3.And(b, o.m[k]) for k, b in self.m.items() if k in o.m])))
        return SymBool(z3.Not(z3.Or(*[z3.And(b, zbool(k in o)) for k, b in self.m.items()])))

    def __getitem__(self, i):
        if i != 0:
            raise IndexError('SymSmallSet supports [0] only (minimum of the sorted tuple)')
        if Ctx.cur.decide(z3.Not(self.nonempty())):
            raise IndexError('tuple index out of range')
        e = z3.BitVecVal(self.u[-1], W)
        for k in reversed(self.u):
            e = z3.If(self.m[k], z3.BitVecVal(k, W), e)
        return SymInt(e)

    def __iter__(self):
        raise RuntimeError('iteration over SymSmallSet must go through guarded_for (LoopCut)')

    def __eq__(self, o):
        if isinstance(o, SymSmallSet):
            ks = set(self.m) | set(o.m)
            return SymBool(z3.And(*[self.m.get(k, z3.BoolVal(False)) == o.m.get(k, z3.BoolVal(False)) for k in ks]))
        if isinstance(o, (tuple, set, frozenset, list)):
            oo = set(o)
            return SymBool(z3.And(*[b if k in oo else z3.Not(b) for k, b in self.m.items()])) if oo <= set(self.u) else False
        return False

    __hash__ = None


def merge_value(cond, a, b):
    """If(cond, a, b) over proxies / concrete ints"""
    if a is b:
        return a
    if isinstance(a, (SymBool, bool)) and isinstance(b, (SymBool, bool)):
        return SymBool(z3.If(cond, zbool(a), zbool(b)))
    za, zb = bv(a), bv(b)
    if za is None or zb is None:
        raise TypeError(f'cannot merge loop state {a!r} / {b!r}')
    return SymInt(z3.If(cond, za, zb))


def guarded_for(it, body, env):
    """`for x in it: body` where `it` may be a SymSmallSet: unroll over the universe, If-merge the loop state"""
    if not isinstance(it, SymSmallSet):
        for x in it:
            env = body(x, env)
        return env
    for k in it.u:
        new = body(k, dict(env))
        for name in set(new) | set(env):
            env[name] = merge_value(it.m[k], new.get(name), env.get(name))
    return env


# ---- discharging ----------------------------------------------------------------------------------------------------

def model_dict(m):
    out = {}
    for d in m.decls():
        v = m[d]
        try:
            if z3.is_bv_value(v):
                out[d.name()] = v.as_signed_long() if v.size() == W else v.as_long()
            elif z3.is_true(v) or z3.is_false(v):
                out[d.name()] = z3.is_true(v)
            else:
                out[d.name()] = str(v)
        except Exception:
            out[d.name()] = str(v)
    return out


def check_sat(assertions, timeout_ms=30000, tactic=None):
    """-> (result 'sat'|'unsat'|'unknown', model dict|None, backend, seconds); z3 first, unknown -> cvc5 on the SMT-LIB2 text"""
    t = time.time()
    if tactic == 'cvc5':            # obligations z3 is known to be slow on: cvc5 first (no model -> a 'sat' answer is re-checked by z3 for the witness)
        from .backends import cvc5_check
        s0 = z3.Solver()
        s0.add(*assertions)
        r0 = cvc5_check(s0.to_smt2(), timeout_ms)
        if r0 == 'unsat':
            return 'unsat', None, 'cvc5', time.time() - t
        tactic = 'QF_BV'
    s = z3.Solver() if tactic is None else z3.SolverFor(tactic) if tactic.startswith('QF_') else z3.Tactic(tactic).solver()
    s.set('timeout', timeout_ms)
    s.add(*assertions)
    r = s.check()
    if r == z3.unsat:
        return 'unsat', None, 'z3', time.time() - t
    if r == z3.sat:
        return 'sat', model_dict(s.model()), 'z3', time.time() - t
    from .backends import cvc5_check
    r2 = cvc5_check(s.to_smt2(), timeout_ms)
    return r2, None, 'cvc5', time.time() - t


class Failure:
    def __init__(self, name, kind, model, detail, pc=None):
        self.name, self.kind, self.model, self.detail = name, kind, model, detail


def prove(name, fn, requires=(), ensures=None, raises=(), timeout_ms=30000, max_fail=3, tactic=None):
    """Enumerate all paths of fn() (a closure building proxies and calling the real code) and discharge per path:
        ok-path :  requires ∧ pc ⊢ ensures(value) ∧ side-conditions
        exc-path:  exception class ∈ raises, or requires ∧ pc unsatisfiable
    -> (rows, failures); rows = (obligation name, ok, engine, backend, seconds); ok None = undecided."""
    rows, fails = [], []
    n = 0
    try:
        for pc, side, kind, val in explore(fn, requires):
            n += 1
            oname = f'{name}#p{n}'
            if kind == 'exc':
                if isinstance(val, tuple(raises)) if raises else False:
                    goal = None
                    if ensures is not None and getattr(ensures, 'on_exc', None):
                        goal = ensures.on_exc(val)
                    if goal is None:
                        rows.append((oname + ':raises-allowed', True, 'P', 'path', 0.0))
                        continue
                    q = [*requires, *pc, z3.Not(goal)]
                else:
                    q = [*requires, *pc]       # must be infeasible
                r, m, be, dt = check_sat(q, timeout_ms, tactic)
                ok = True if r == 'unsat' else False if r == 'sat' else None
                rows.append((oname + f':no-{type(val).__name__}', ok, 'P', be, dt))
                if ok is False and len(fails) < max_fail:
                    fails.append(Failure(oname, 'exception', m, f'{type(val).__name__}: {val}'))
                continue
            try:
                goal = z3.BoolVal(True) if ensures is None else ensures(val)
            except Budget:
                raise
            except Exception as e:      # the result does not even have the shape the postcondition talks about
                goal = z3.BoolVal(False)
                shape_err = f'postcondition not evaluable on the returned value: {type(e).__name__}: {e}'
            else:
                shape_err = None
            if not z3.is_expr(goal):
                goal = z3.BoolVal(bool(goal))
            goal = z3.And(goal, *side) if side else goal
            r, m, be, dt = check_sat([*requires, *pc, z3.Not(goal)], timeout_ms, tactic)
            ok = True if r == 'unsat' else False if r == 'sat' else None
            rows.append((oname, ok, 'P', be, dt))
            if ok is False and len(fails) < max_fail:
                fails.append(Failure(oname, 'ensures', m, shape_err or 'postcondition or no-wrap side condition has a counter-model'))
    except Budget as e:
        rows.append((f'{name}#budget:{e}', None, 'P', 'path', 0.0))
    if n == 0 and not rows:
        rows.append((f'{name}#no-paths', None, 'P', 'path', 0.0))
    return rows, fails
