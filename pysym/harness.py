"""Contract cases: one Case = one function under contract at one shape; discharged path by path by pysym.prove.

A contract module exposes `cases() -> list[Case]` (deterministic).  run_cases() fans the cases out to worker processes
(each worker rebuilds the list and runs case i), collects obligation rows and failures, replays counter-models natively.
"""
import importlib
import time
import traceback

import z3

from .core import prove, Failure


class Case:
    def __init__(self, name, fn, requires=(), ensures=None, raises=(), native=None, target=None, timeout_ms=30000,
                 tactic=None, expect_fail=False, note=None, tier='quick'):
        self.name = name
        self.fn = fn                  # closure: builds proxies, calls the REAL code, returns a value
        self.requires = list(requires)
        self.ensures = ensures        # value -> z3 Bool (postcondition, taken from the property statement)
        self.raises = tuple(raises)   # exception classes allowed to escape
        self.native = native          # model dict -> dict(ok=bool, got=..., expected=..., args=...) : replay on the real code
        self.target = target          # (repo file, qualname)
        self.timeout_ms = timeout_ms
        self.tactic = tactic
        self.expect_fail = expect_fail  # canary: a deliberately wrong postcondition that MUST produce a counter-model
        self.note = note
        self.tier = tier              # 'quick': every run; 'thorough': only in the thorough tier


def _work(arg):
    modname, idx, setup_pyx = arg
    from vlib import env
    env.setup(pyx=setup_pyx)
    mod = importlib.import_module(modname)
    case = mod.cases()[idx]
    t = time.time()
    try:
        rows, fails = prove(case.name, case.fn, case.requires, case.ensures, case.raises, case.timeout_ms, tactic=case.tactic)
    except Exception as e:
        from vlib.env import Unanchored
        return dict(name=case.name, crash=traceback.format_exc(), rows=[], fails=[], seconds=time.time() - t,
                    unanchored=str(e) if isinstance(e, Unanchored) else None)
    out_f = []
    for f in fails:
        nat = None
        if case.native is not None and f.model is not None:
            try:
                nat = case.native(f.model)
            except Exception:
                nat = {'ok': None, 'replay_error': traceback.format_exc(limit=3)}
        out_f.append(dict(obligation=f.name, kind=f.kind, model=f.model, detail=f.detail, native=nat))
    return dict(name=case.name, rows=rows, fails=out_f, seconds=time.time() - t, expect_fail=case.expect_fail,
                target=case.target)


def run_cases(run, modname, prop_key_prefix='', setup_pyx=False, engine='P', select=None):
    """run every case of contract module `modname`; record obligations/violations in `run`; returns number of cases"""
    from vlib.report import pmap
    from vlib.env import Unanchored
    mod = importlib.import_module(modname)
    try:
        cs = mod.cases()
    except (Unanchored, IndexError, StopIteration) as e:
        # building the cases reads the AST of the current tree; a statement / table that is not where the contract addresses it means the
        # obligations cannot be generated from this tree (IndexError / StopIteration come from the same look-ups in the contract modules)
        run.unanchored(modname, f'{type(e).__name__}: {e}')
        return 0
    idxs = [i for i, c in enumerate(cs) if (select is None or select(c)) and (c.tier == 'quick' or run.tier == 'thorough')]
    run.notes.setdefault('contract_cases', {})[modname] = {'run': len(idxs), 'defined': len(cs)}
    results = pmap(_work, [(modname, i, setup_pyx) for i in idxs])
    import os
    if os.environ.get('VERIF_TIMING'):
        for res in sorted(results, key=lambda r: -r['seconds'])[:25]:
            print(f"TIMING {res['seconds']:8.1f}s {len(res['rows']):6d} rows  {res['name']}", flush=True)
    vacuous, any_failed = [], False
    for res in results:
        if res.get('unanchored'):
            run.unanchored(f'{modname}:{res["name"]}', res['unanchored'])
            continue
        if res.get('crash'):
            raise RuntimeError(f'contract case {res["name"]} crashed the checker:\n{res["crash"]}')
        if res['expect_fail']:
            # canary: vacuity guard - a negated postcondition must be refuted by the engine
            refuted = any(r[1] is False for r in res['rows'])
            run.oblig(res['name'] + ':canary-refuted', True if refuted else None, engine, 'z3', res['seconds'])
            if not refuted:
                vacuous.append(res['name'])
            continue
        if not res['rows']:
            raise RuntimeError(f'contract case {res["name"]} generated zero obligations')
        failed = {f['obligation']: f for f in res['fails']}
        for (oname, ok, eng, be, dt) in res['rows']:
            known = False
            if ok is False:
                any_failed = True
                f = failed.get(oname.split(':')[0]) or (res['fails'][0] if res['fails'] else None)
                nat = f and f.get('native')
                reproduced = bool(nat) and nat.get('ok') is False
                key = f'{prop_key_prefix}{res["name"]}'
                k = run.violation(key, f'obligation {oname} of {res["target"]} has a counter-model'
                                  + (': reproduced on the real code' if reproduced else ''),
                                  witness=f and f['model'], obligation=oname, solver_output=f and f['detail'], native=nat,
                                  found_input=reproduced)
                known = (k == 'known')
            run.oblig(oname, ok, eng if eng != 'P' else engine, be, dt, known=known)
    if vacuous and not any_failed:
        # a canary with a negated postcondition also "verifies" on a tree whose function is wrong for every input of the canary's case; that tree
        # fails the real obligation of the same module (reported above as a violation) - only a quiet module with an unrefuted canary is vacuous
        raise RuntimeError(f'canary {vacuous[0]} verified: harness is vacuous')
    return len(idxs)
