"""Regions: statements cut mechanically out of the AST of the current source, addressed structurally
(function qualname + path of statement kinds and ordinals, e.g. 'for[0]' / 'for[0]/for[0]'), executed unchanged on proxies.

The only rewrite is LoopCut: `for x in E: BODY` whose iterable may be a SymSmallSet becomes guarded unrolling over the finite
universe with If-merging of the loop state (pysym.guarded_for); it is applied to simple accumulation loops only (no
break/return/yield in the body).  What the extraction drops: everything outside the region (represented by the contract's
requires on the region's free variables); nothing inside it.
"""
from vlib.env import Unanchored
import ast
import copy

from vlib import env
from .core import guarded_for, zbool

import z3


def find_function(tree, qualname):
    node = tree
    for part in qualname.split('.'):
        for n in node.body:
            if isinstance(n, (ast.FunctionDef, ast.ClassDef)) and n.name == part:
                node = n
                break
        else:
            raise Unanchored(f'{qualname}: {part} not found')
    return node


_KINDS = {'for': ast.For, 'if': ast.If, 'while': ast.While, 'try': ast.Try, 'with': ast.With}


def locate(fnode, path):
    """path 'for[0]/if[1]/else/for[0]' -> the addressed statement node; a step may carry a content anchor: 'for[0]{bits1}'"""
    node, body = fnode, fnode.body
    import re
    for step in [p for p in re.split(r'/(?![^{]*})', path) if p]:
        if step == 'else':
            body = node.orelse
            continue
        if step == 'body':
            body = node.body
            continue
        needle = None
        if step.endswith('}'):                       # 'for[0]{bits1}': the idx-th `for` among those whose source text contains the needle
            step, _, needle = step[:-1].partition('{')
        kind, _, idx = step.partition('[')
        idx = int(idx.rstrip(']'))
        cands = [s for s in body if isinstance(s, _KINDS[kind])]
        if needle is not None:
            cands = [s for s in cands if needle in ast.unparse(s)]
        if idx >= len(cands):
            raise Unanchored(f'region {path}: step {step}' + (f' containing {needle!r}' if needle else '') + ' not found')
        node = cands[idx]
        body = node.body
    return node


class LoopCut(ast.NodeTransformer):
    def __init__(self):
        self.n = 0

    def visit_For(self, node):
        self.generic_visit(node)
        if not isinstance(node.target, ast.Name) or node.orelse:
            return node
        inner = ast.Module(node.body, [])
        if any(isinstance(s, (ast.Return, ast.Break, ast.Yield, ast.YieldFrom)) for s in ast.walk(inner)):
            return node
        assigned = sorted({t.id for s in ast.walk(inner)
                           for t in ([s.target] if isinstance(s, (ast.AugAssign, ast.AnnAssign)) else s.targets if isinstance(s, ast.Assign) else [])
                           if isinstance(t, ast.Name)})
        if any(isinstance(s, ast.NamedExpr) for s in ast.walk(inner)):
            return node
        assigned = [v for v in assigned if v != node.target.id]     # the loop variable is local to one iteration
        self.n += 1
        fname = f'__loop{self.n}'
        ret = 'return {' + ', '.join(f'"{v}": {v}' for v in assigned) + '}'

        class C(ast.NodeTransformer):
            def visit_Continue(s, n):
                return ast.parse(ret).body[0]
        body = [ast.parse(f'{v} = __env["{v}"]').body[0] for v in assigned]
        body += [C().visit(copy.deepcopy(s)) for s in node.body]
        body.append(ast.parse(ret).body[0])
        f = ast.FunctionDef(name=fname, args=ast.arguments(posonlyargs=[], args=[ast.arg(node.target.id), ast.arg('__env')],
                                                           kwonlyargs=[], kw_defaults=[], defaults=[]),
                            body=body, decorator_list=[], type_params=[])
        call = ast.parse('__r = _guarded_for(__IT__, ' + fname + ', {' + ', '.join(f'"{v}": {v}' for v in assigned) + '})').body[0]
        call.value.args[0] = node.iter
        unpack = [ast.parse(f'{v} = __r["{v}"]').body[0] for v in assigned]
        return [f, call] + unpack


def compile_region(stmts, filename, loopcut=True):
    stmts = [copy.deepcopy(s) for s in stmts]
    if loopcut:
        lc = LoopCut()
        out = []
        for s in stmts:
            r = lc.visit(s)
            out.extend(r if isinstance(r, list) else [r])
        stmts = out
    m = ast.Module(stmts, [])
    ast.fix_missing_locations(m)
    return compile(m, filename, 'exec')


def run_region(code, module_globals, **names):
    g = dict(module_globals)
    g['_guarded_for'] = guarded_for
    g.update(names)
    exec(code, g)
    return g


def region_source(src, node):
    return ast.get_source_segment(src, node) or ''


def bool_expr(test, ns, filename='<test>'):
    """z3 truth value of a test expression: and / or / not are taken structurally (operands are side-effect free), every
    other operand is evaluated by CPython on the proxies and converted by C/Python truthiness"""
    if isinstance(test, ast.BoolOp):
        parts = [bool_expr(v, ns, filename) for v in test.values]
        return z3.And(*parts) if isinstance(test.op, ast.And) else z3.Or(*parts)
    if isinstance(test, ast.UnaryOp) and isinstance(test.op, ast.Not):
        return z3.Not(bool_expr(test.operand, ns, filename))
    e = ast.Expression(copy.deepcopy(test))
    ast.fix_missing_locations(e)
    return zbool(eval(compile(e, filename, 'eval'), ns))
