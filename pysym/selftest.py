"""Every proxy operation is checked against CPython on random concrete values (a disagreement is a checker fault, exit 3)."""
import operator
import random

import z3

from .core import Ctx, SymInt, SymBool, W, bv


def _val(x):
    if isinstance(x, SymInt):
        return z3.simplify(x.z).as_signed_long()
    if isinstance(x, SymBool):
        return z3.is_true(z3.simplify(x.z))
    return x


def run(n=300, seed=7):
    rnd = random.Random(seed)
    Ctx.cur = Ctx([], [])
    ops = [operator.add, operator.sub, operator.mul, operator.floordiv, operator.mod, operator.and_, operator.or_,
           operator.xor, operator.lshift, operator.rshift, operator.eq, operator.ne, operator.lt, operator.le, operator.gt, operator.ge]
    try:
        for _ in range(n):
            a = rnd.choice([0, 1, -1, 2, 7, -7, 255, -256, 65535, 2 ** 40 + 3, -(2 ** 40) - 5, rnd.randint(-10 ** 6, 10 ** 6)])
            b = rnd.choice([1, 2, 3, -3, 5, 63, 64, 17, -17, 0, rnd.randint(-100, 100)])
            for op in ops:
                if op in (operator.lshift, operator.rshift) and not 0 <= b < 70:
                    continue
                try:
                    want = op(a, b)
                except ZeroDivisionError:
                    want = ZeroDivisionError
                for mk in (lambda x, y: (SymInt(z3.BitVecVal(x, W)), y), lambda x, y: (x, SymInt(z3.BitVecVal(y, W))),
                           lambda x, y: (SymInt(z3.BitVecVal(x, W)), SymInt(z3.BitVecVal(y, W)))):
                    x, y = mk(a, b)
                    try:
                        got = _val(op(x, y))
                    except ZeroDivisionError:
                        got = ZeroDivisionError
                    if got != want:
                        raise AssertionError(f'proxy disagreement: {op.__name__}({a},{b}) = {want}, proxy {got}')
            assert _val(-SymInt(z3.BitVecVal(a, W))) == -a and _val(~SymInt(z3.BitVecVal(a, W))) == ~a
            assert _val(abs(SymInt(z3.BitVecVal(a, W)))) == abs(a)
        for p in (True, False):
            for q in (True, False):
                P, Q = SymBool(z3.BoolVal(p)), SymBool(z3.BoolVal(q))
                assert _val(P & Q) == (p & q) and _val(P | Q) == (p | q) and _val(P ^ Q) == (p ^ q) and _val(P == Q) == (p == q)
                assert _val(P + Q) == p + q and _val(P + 3) == p + 3 and _val(P == 1) == (p == 1) and _val(P << 2) == p << 2
    finally:
        Ctx.cur = None
    return True
