"""Secondary solver back ends on the SMT-LIB2 text of an obligation: cvc5 (CLI 1.0.3 / python 1.4) and z3 4.8.12 CLI."""
import os
import subprocess
import tempfile


def _run(cmd, text, timeout_s):
    with tempfile.NamedTemporaryFile('w', suffix='.smt2', delete=False) as f:
        f.write(text)
        if '(check-sat)' not in text:
            f.write('\n(check-sat)\n')
        p = f.name
    try:
        out = subprocess.run(cmd + [p], capture_output=True, text=True, timeout=timeout_s + 5).stdout.strip().split('\n')[0]
    except subprocess.TimeoutExpired:
        out = 'unknown'
    finally:
        os.unlink(p)
    return out if out in ('sat', 'unsat') else 'unknown'


def cvc5_check(smt2, timeout_ms=30000):
    return _run(['/usr/bin/cvc5', f'--tlimit={timeout_ms}', '--lang=smt2'], '(set-logic ALL)\n' + smt2, timeout_ms / 1000)


def z3old_check(smt2, timeout_ms=30000):
    return _run(['/usr/bin/z3', f'-T:{max(1, timeout_ms // 1000)}'], smt2, timeout_ms / 1000)
