"""C13 extra bounded domains (engine B), added by the coverage audit of checks/b13.py.  Same contracts as checks/b13.py (taken from the
property statement); what is new is the DOMAIN:

part X  every public mutator that engine F does not cover (checks/fpart.NOT_COVERED_BY_F: calculate_cis_trans_from_2d, implicify_hydrogens,
        neutralize, standardize_charges, standardize / canonicalize) and the remaining ones of DESIGN 1.6, with EVERY combination of their
        public keywords, on designed molecules that reach their branches (explicit hydrogens, isotopes, salts, zwitterions, charged
        heterocycles, ferrocene, rule instances of standardize, tautomers, allenes / cumulenes / ring stereo, coordinate bonds, metals) and
        corpus molecules, each in two forms (A: aromatic form, 2D coordinates; B: Kekule form, explicit hydrogens, atom numbers with gaps in
        descending order, 2D coordinates), with EVERY memoised member of the class warm before the call (oracles/o13_allkeys: the list is
        read off the class) and every one of them compared with an independently rebuilt molecule afterwards; also on a
        copy(keep_sssr=True, keep_components=True) of a warm molecule (the copy is warmed too; the source must not change).
part T  transactions: flat blocks of 0..3 edits with an exception before / between / after the edits or none (commit), raised by the
        user (Exception and BaseException) or by the library itself on an invalid call inside the block, views read inside the block;
        nested blocks in every combination of (inner commits / inner raises and is caught inside the outer / inner raises through) x
        (outer commits / outer raises).  Expected state from an independent model of the edits.
part K  copies, substructures, unions made from a cold and from a fully warm source: copy() with every keep_* combination, copy.copy,
        substructure (both recalculate_hydrogens values, `&`, `-`, augmented_substructure(s), split()), union (remap / disjoint numbers,
        copy / in place, `|`, `|=`); then an edit of the result or of the source, both sides re-checked against their rebuilds;
        flush_cache() with every keep_* combination on a warm molecule without an edit, and as the documented manual route after an
        attribute edit outside a transaction (Element.charge docstring: "Make sure to flush cache and recalculate hydrogens count and
        stereo"), where both keep flags are legitimate (no bond changes).

Violation families follow checks/b13.py: `<contract>@<mutator>`; transactions: `<contract>@txn:<shape>`.
"""
import copy as _copy
import random

from vlib import env

B = V = K = None


def _imports():
    global B, V, K, parse, smiles
    import checks.b13 as B_
    B_._imports()
    B = B_
    from oracles import o13_views as V_, o13_allkeys as K_
    V, K = V_, K_
    from bounded.domains import parse
    from chython import smiles


# ---------------------------------------------------------------------------------------------------------------------------
# molecules
# ---------------------------------------------------------------------------------------------------------------------------
X_SMILES = [
    # explicit hydrogens, isotopes
    '[H]C([H])([H])[H]', '[2H]C([H])([H])O', '[H][H]', '[H]O[H]', '[H][N+]([H])([H])C', '[H][C@](F)(Cl)Br', '[H]/C(F)=C(F)/[H]',
    'C[C@H](N)C(O)=O', '[13CH3]O', '[H]c1ccccc1',
    # aromatic forms, ring tautomers
    'c1ccccc1', 'c1ccncc1', 'Oc1ccccn1', 'O=c1cccc[nH]1', 'c1cc[nH]c1', 'c1ccc2[nH]ccc2c1', 'Cc1cc(=O)[nH]c(C)n1', 'c1ccc(-c2ccccc2)cc1',
    'N1C=CC2=NC=CC2=C1', 'O=C1C=CC(=O)C=C1',
    # charged heterocycles (standardize_charges: fixed rules, morgan rules, ferrocene)
    'Cc1[nH]cc[nH+]1', 'C[n+]1ccn(CC)c1', 'Cc1cc[nH][nH+]1', 'c1cc2cc[nH]c2[nH+]c1', 'c1c[nH+]c2cc[nH]c2c1', 'c1cn2cc[nH]c2[nH+]1',
    'c1cc2[nH+]ccn2[nH]1', '[Fe+2].c1cc[cH-]c1.Cc1ccc[cH-]1',
    # salts, acids and bases (neutralize, remove_metals, remove_acids, split_metal_salts)
    'C[NH3+].[Cl-]', 'CC(=O)[O-].[Na+]', '[NH3+]CC([O-])=O', 'C[NH2+]CC[NH3+].[Cl-]', 'CC(=O)O[Na]', 'CN.Cl', 'CC(O)=O.N', '[K+].[O-]c1ccccc1',
    'C[N+](C)(C)C.[OH-]', '[Na+].[Na+].[O-]S([O-])(=O)=O', '[Li]CCCC', 'CCO[Mg]OCC', 'CC(=O)[O-].CC(=O)[O-].[Ca+2]',
    # groups rewritten by standardize / fix_resonance
    'CN(=O)=O', 'C[N+]([O-])=O', 'CS(=O)C', 'C[S+]([O-])C', 'CN=N#N', 'C=[N+]=[N-]', 'CN=[N+]=[N-]', 'C[N+]#[C-]', 'CP(C)(C)=O', 'C[P+](C)(C)[O-]',
    'O=C[Cu]', 'CN[Cu]', 'C[N+](C)=CC=C[O-]', '[CH2]C=C[CH2]', 'CC(=O)[C@H](C)c1ccccc1', 'OC=CC', 'CC(O)=C(C)C', 'C[N+](C)(C)[O-]', 'CN(C)(C)=O',
    'OS(O)(=O)=O', 'CC#N', 'C[Si](C)(C)C',
    # stereo: cis-trans, allenes, cumulenes, rings, several centres
    'C/C=C/C', 'CC=CC', 'C/C=C/C=C/C', 'CC=[C@]=CC', 'CC=C=CC', 'F/C=C=C=C/F', 'C[C@H]1CC[C@@H](C)CC1', 'C[C@H](O)[C@@H](N)C', 'C1CC2(C1)CCC2',
    'C[C@@H]1C[C@H]1C', 'OC(=O)/C=C\\C(O)=O',
    # coordinate bonds
    'CN~[Cu]', 'C[NH2]~[Cu]~[NH2]C', 'O=C1O~[Cu]~OC(=O)C1',
]


def build(smi, form):
    """form A: as parsed (kekule + thiele normal form) with 2D coordinates; form B: Kekule form, explicit hydrogens, atom numbers with gaps in
    descending order, 2D coordinates.  None when the molecule is outside the domain (not parsable / not valence-valid)."""
    try:
        m = parse(smi)
    except Exception:
        return None
    if m.check_valence():
        return None
    if form == 'B':
        try:
            m.kekule()
            m.explicify_hydrogens()
        except Exception:
            return None
        atoms = list(m._atoms)
        mx = max(atoms)
        m.remap({n: 3 * (mx - i) + 1000 * (i % 2) + 5 for i, n in enumerate(atoms)})
    B.lay_out(m, smi + form, always=True)
    m.name = 'x'
    m.meta['k'] = 'v'
    m.flush_cache()
    return m


# ---------------------------------------------------------------------------------------------------------------------------
# part X
# ---------------------------------------------------------------------------------------------------------------------------
_METHOD = {'implicify': 'implicify_hydrogens', 'explicify': 'explicify_hydrogens'}
_DOC_KIND = {'kekule': 'kekule', 'canonicalize': 'x_canonicalize', 'explicify_hydrogens': 'explicify', 'implicify_hydrogens': 'implicify'}
_TF = (True, False)


def x_ops():
    """[(method name, keyword dict, special)] - special: None | 'flush:a,b' (clean_cache=False + manual flush) | 'stereo-adder'"""
    ops = []
    for kind, variants in B.X_VARIANTS.items():
        name = _METHOD.get(kind, kind[2:] if kind.startswith('x_') else kind)
        for v in variants:
            ops.append((name, dict(v), None))
    for name in ('clean_stereo', 'clean_isotopes', 'fix_stereo', 'flush_stereo_cache', 'calc_labels'):
        ops.append((name, {}, None))
    for a in _TF:
        for b in _TF:
            ops.append(('calculate_cis_trans_from_2d', {'clean_cache': False}, f'flush:{int(a)},{int(b)}'))
    for name in ('add_wedge', 'add_atom_stereo', 'add_cis_trans_stereo'):
        ops.append((name, {}, 'stereo-adder'))
        ops.append((name, {'clean_cache': False}, 'stereo-adder+flush'))
    ops.append(('saturate', {}, 'saturate'))
    ops.append(('saturate', {'reset_electrons': False, 'logging': True}, 'saturate'))
    return ops


def x_label(op):
    name, kw, sp = op
    return name + '(' + ','.join(f'{k}={v}' for k, v in sorted(kw.items())) + ')' + (f'[{sp}]' if sp and sp != 'stereo-adder' else '')


def _stereo_args(m, name, rng):
    """valid arguments of a stereo adder on m (stereo labels were cleaned before), or None"""
    if name == 'add_wedge':
        c = [n for n in m.chiral_tetrahedrons]
        if not c:
            return None
        n = rng.choice(sorted(c))
        k = rng.choice(sorted(m.stereogenic_tetrahedrons[n]))
        return (n, k, rng.choice((1, -1)))
    if name == 'add_atom_stereo':
        c = sorted(m.chiral_tetrahedrons)
        if not c:
            return None
        n = rng.choice(c)
        e = list(m.stereogenic_tetrahedrons[n])
        rng.shuffle(e)
        return (n, tuple(e), rng.choice((True, False)))
    c = sorted(m.chiral_cis_trans)
    if not c:
        return None
    n, k = rng.choice(c)
    n1, k1, *_ = m.stereogenic_cis_trans[(n, k)]
    return (n, k, n1, k1, rng.choice((True, False)))


def x_case(smi, form, op, mode, seed):
    """one call of one mutator on one fresh molecule; returns (problems [(family, detail)], changed?, skipped?)"""
    name, kw, sp = op
    rng = random.Random(f'{seed}:{smi}:{form}:{x_label(op)}:{mode}')
    m = build(smi, form)
    if m is None:
        return [], False, True
    kw = dict(kw)
    if name in ('calculate_cis_trans_from_2d', 'add_wedge', 'add_atom_stereo', 'add_cis_trans_stereo'):
        m.clean_stereo()  # something to compute
    if name == 'saturate':
        if any(b.order != 1 for _, _, b in m.bonds()) or any(a.implicit_hydrogens for a in m._atoms.values()):
            return [], False, True  # documented domain: single-bonded skeleton with explicit hydrogens
    args = ()
    if sp and sp.startswith('stereo-adder'):
        args = _stereo_args(m, name, rng)
        if args is None:
            return [], False, True
        m.flush_cache()
    if kw.get('start_map'):
        kw['start_map'] = max(m._atoms) + int(kw['start_map'][3:])
    probs = []
    src = None
    if mode == 'cold':
        m.flush_cache()
    else:
        K.warm(m)
        if mode == 'kept-copy':
            src = m
            src_raw, src_all = V.raw_snapshot(src), K.read_all(src)
            m = src.copy(keep_sssr=True, keep_components=True)
            probs += [(f'{f}@copy', d) for f, d in B.independence(m, [('source', src)])]
            K.warm(m)
    atoms0, bonds0 = B.gstate(m)
    raw0 = V.raw_snapshot(m)
    th = B.total_h(m)
    raised = documented = None
    tag = name
    if name == 'fix_structure' and B.fix_structure_changes_hydrogens(m, kw):
        tag = 'fix_structure:changes-hydrogens'
    try:
        getattr(m, name)(*args, **kw)
        if sp and sp.startswith('flush:'):
            a, b = sp[6:].split(',')
            m.flush_cache(keep_sssr=a == '1', keep_components=b == '1')
        elif sp == 'stereo-adder+flush':
            m.flush_cache(keep_sssr=True, keep_components=True)
    except Exception as e:
        raised = type(e).__name__
        pre = B._Pre(atoms0, bonds0, raw0)
        if any(c == raised and B._doc_precondition(k, pre) for c, k, _ in B.DOC_EXC.get(_DOC_KIND.get(name, name), ())):
            documented = raised
        else:
            import traceback
            tb = traceback.extract_tb(e.__traceback__)
            where = next((f'{f.filename.split("/chython/")[-1]}:{f.name}' for f in reversed(tb) if '/chython/' in f.filename), '?')
            probs.append((f'exc:{raised}@{name}', f'{raised}: {e} at {where}'))
    p, _, _ = B.coherence(m, allkeys=True)
    if p and documented:
        p = [(f'partial:{documented}', f'{documented} raised by {x_label(op)} left the molecule incoherent: ' + '; '.join(f for f, _ in p)[:300] + ' | ' + p[0][1])]
    if tag != name:
        p = B.collapse(p, tag)
    probs += [(f'{f}@{tag}', d) for f, d in p]
    if name in ('implicify_hydrogens', 'explicify_hydrogens') and not raised:
        th1 = B.total_h(m)
        bad = [n for n in th1 if n in th and th[n] is not None and th[n] != th1[n]]
        if bad:
            probs.append((f'stale:implicit_hydrogens@{name}', f'implicit+explicit hydrogens of atoms {bad[:4]} changed'))
    if src is not None:
        d = V.snapshot_diff(src_raw, V.raw_snapshot(src))
        if d:
            probs.append((f'independent:copy-source-changed@{name}', f'source of the copy changed in {d} after {x_label(op)} on the copy'))
        a1 = K.read_all(src)
        bad = [k for k in src_all if src_all[k] != a1[k]]
        if bad:
            probs.append((f'independent:copy-source-views-changed@{name}', f'members {bad[:5]} of the source changed after {x_label(op)} on the copy'))
        probs += [(f'{f}@{name}', d) for f, d in B.independence(m, [('source', src)])]
    changed = bool(V.snapshot_diff(raw0, V.raw_snapshot(m)))
    if not probs:
        K.warm(m)
        probs += [(f'{f}@{name}:probe', d) for f, d in B.probe_transaction(m)]
        p, _ = B.probe_destructive(m, full=True)
        probs += [(f'{f}@edit-probe-after-{name}', d) for f, d in p]
    return probs, changed, False


def x_worker(item):
    """all operations on one (molecule, form): warm always; kept-copy (form A) / cold (form B) for a seeded 15 % (all when `every`)"""
    _imports()
    smi, form, every, seed = item
    ops = x_ops()
    rng = random.Random(f'{seed}:X:{smi}:{form}')
    n, trig, fails = 0, [], []
    for oi, op in enumerate(ops):
        modes = ['warm']
        if every or rng.random() < .15:
            modes.append('kept-copy' if form == 'A' else 'cold')
        for mode in modes:
            probs, changed, skipped = x_case(smi, form, op, mode, seed)
            if skipped:
                continue
            n += 1
            if changed:
                trig.append(f'{smi}:{form}:{oi}:{mode}')
            for f, d in probs:
                fails.append((f, d, {'part': 'X', 'smiles': smi, 'form': form, 'op': oi, 'op_text': x_label(op), 'mode': mode, 'seed': seed}))
    return n, trig, fails


# ---------------------------------------------------------------------------------------------------------------------------
# part T: transactions
# ---------------------------------------------------------------------------------------------------------------------------
T_SEEDS = [('ethanol', 'CCO', None), ('benzene', 'c1ccccc1', None), ('pyridine', 'c1ccncc1', None), ('cpca', 'OC(=O)C1CC1', None),
           ('stereocentre', 'C[C@H](N)O', None), ('alkene', 'C/C=C/C', None), ('salt', '[Na+].[O-]C', None),
           ('gaps', 'NCCO', {1: 1005, 2: 7, 3: 300, 4: 2}), ('radical-isotope', '[13CH3][CH]O[H]', None), ('complex', 'CN~[Cu]', None),
           ('allene', 'CC=[C@]=CC', None)]
T_ONLY = [('single-atom', 'N', None), ('empty', '', None)]  # boundary inputs (transactions only)
EDIT_KINDS = ('add', 'addn', 'del_atom', 'del_bond', 'charge', 'radical', 'isotope', 'meta', 'name', 'bond', 'bond8')
EXC_KINDS = ('boom', 'base', 'lib:loop', 'lib:dup-atom', 'lib:dup-bond', 'lib:no-atom', 'lib:charge-range')
_Z = {'C': 6, 'N': 7, 'O': 8}


class _BaseBoom(BaseException):
    pass


def t_seed(i):
    name, smi, mp = (T_SEEDS + T_ONLY)[i]
    if smi:
        m = parse(smi)
    else:
        from chython.containers import MoleculeContainer
        m = MoleculeContainer()
    if mp:
        m.remap(mp)
    m.name = name
    m.meta['seed'] = name
    m.flush_cache()
    return m


class Model:
    """independent model of the raw graph state under the edits"""

    def __init__(self, m=None):
        if m is not None:
            self.atoms, self.bonds = B.gstate(m)
            self.meta = dict(m._meta or {})
            self.name = m._name
            self.touched = set()

    def copy(self):
        c = Model()
        c.atoms, c.bonds, c.meta, c.name, c.touched = dict(self.atoms), dict(self.bonds), dict(self.meta), self.name, set(self.touched)
        return c

    def neighbours(self, n):
        return [next(iter(e - {n})) for e in self.bonds if n in e]

    def apply(self, e):
        k = e[0]
        if k == 'add':
            _, el, a, o = e
            n = max(self.atoms, default=0) + 1
            self.atoms[n] = (_Z[el], None, 0, False)
            self.bonds[frozenset((n, a))] = o
            self.touched |= {n, a}
        elif k == 'addn':
            _, el, n = e
            self.atoms[n] = (_Z[el], None, 0, False)
            self.touched.add(n)
        elif k == 'del_atom':
            n = e[1]
            self.touched |= set(self.neighbours(n))
            self.touched.discard(n)
            del self.atoms[n]
            self.bonds = {x: o for x, o in self.bonds.items() if n not in x}
        elif k == 'del_bond':
            del self.bonds[frozenset(e[1:3])]
            self.touched |= set(e[1:3])
        elif k in ('bond', 'bond8'):
            self.bonds[frozenset(e[1:3])] = e[3]
            if e[3] != 8:
                self.touched |= set(e[1:3])
        elif k == 'charge':
            z, i, _, r = self.atoms[e[1]]
            self.atoms[e[1]] = (z, i, e[2], r)
            self.touched.add(e[1])
        elif k == 'radical':
            z, i, c, r = self.atoms[e[1]]
            self.atoms[e[1]] = (z, i, c, not r)
            self.touched.add(e[1])
        elif k == 'isotope':
            z, _, c, r = self.atoms[e[1]]
            self.atoms[e[1]] = (z, e[2], c, r)
        elif k == 'meta':
            self.meta['edited'] = e[1]
        elif k == 'name':
            self.name = e[1]
        else:
            raise AssertionError(e)

    def candidates(self, kind, rng, iso_of):
        atoms = sorted(self.atoms)
        if not atoms and kind not in ('addn', 'meta', 'name'):
            return []
        if kind == 'add':
            return [('add', rng.choice('CNO'), rng.choice(atoms), rng.choice((1, 1, 2)))] if atoms else []
        if kind == 'addn':
            mx = max(atoms, default=0)
            return [('addn', rng.choice('CNO'), rng.choice((mx + 9, mx + 1000)))]
        if kind == 'del_atom':
            return [('del_atom', rng.choice(atoms))] if len(atoms) > 1 else []
        if kind == 'del_bond':
            b = sorted(tuple(sorted(e)) for e in self.bonds)
            return [('del_bond',) + rng.choice(b)] if b else []
        if kind in ('bond', 'bond8'):
            free = [(a, b) for i, a in enumerate(atoms) for b in atoms[i + 1:] if frozenset((a, b)) not in self.bonds]
            return [(kind,) + rng.choice(free) + ((8,) if kind == 'bond8' else (rng.choice((1, 2)),))] if free else []
        if kind == 'charge':
            n = rng.choice(atoms)
            return [('charge', n, rng.choice([c for c in (-1, 0, 1, 2) if c != self.atoms[n][2]]))]
        if kind == 'radical':
            return [('radical', rng.choice(atoms))]
        if kind == 'isotope':
            n = rng.choice(atoms)
            return [('isotope', n, None if self.atoms[n][1] is not None else iso_of[self.atoms[n][0]])]
        if kind == 'meta':
            return [('meta', rng.choice(('inside', 'again')))]
        if kind == 'name':
            return [('name', rng.choice(('edited', 'renamed')))]
        raise AssertionError(kind)


_ISO = {1: 2, 6: 13, 7: 15, 8: 18, 11: 23, 29: 65}


def do_edit(m, e):
    k = e[0]
    if k == 'add':
        n = m.add_atom(e[1])
        m.add_bond(n, e[2], e[3])
    elif k == 'addn':
        m.add_atom(e[1], e[2])
    elif k == 'del_atom':
        m.delete_atom(e[1])
    elif k == 'del_bond':
        m.delete_bond(e[1], e[2])
    elif k in ('bond', 'bond8'):
        m.add_bond(e[1], e[2], e[3])
    elif k == 'charge':
        m.atom(e[1]).charge = e[2]
    elif k == 'radical':
        m.atom(e[1]).is_radical = not m.atom(e[1]).is_radical
    elif k == 'isotope':
        m.atom(e[1]).isotope = e[2]
    elif k == 'meta':
        m.meta['edited'] = e[1]
    elif k == 'name':
        m.name = e[1]
    else:
        raise AssertionError(e)


def do_raise(m, kind):
    """raise inside the block: by the user, or by the library on an invalid call (which must not have changed anything)"""
    if kind == 'boom':
        raise B._Boom
    if kind == 'base':
        raise _BaseBoom
    a = next(iter(m._atoms))  # (scenarios on the empty molecule use the user exceptions only)
    if kind == 'lib:loop':
        m.add_bond(a, a, 1)
    elif kind == 'lib:dup-atom':
        m.add_atom('C', a)
    elif kind == 'lib:dup-bond':
        x, y, _ = next(m.bonds(), (None, None, None))
        if x is None:
            m.add_bond(a, a, 1)
        m.add_bond(x, y, 1)
    elif kind == 'lib:no-atom':
        m.add_bond(a, max(m._atoms) + 77, 1)
    elif kind == 'lib:charge-range':
        m.atom(a).charge = 9
    raise AssertionError(f'the library accepted the invalid call {kind}')


EXC_CLASS = {'boom': '_Boom', 'base': '_BaseBoom', 'lib:loop': 'MappingError', 'lib:dup-atom': 'MappingError', 'lib:dup-bond': 'MappingError',
             'lib:no-atom': 'AtomNotFound', 'lib:charge-range': 'ValueError'}


def exec_tokens(m, toks, log):
    for t in toks:
        if t[0] == 'edit':
            do_edit(m, t[1])
        elif t[0] == 'read':
            if t[1] == 'all':
                K.warm(m)
            else:
                for v in t[1]:
                    V.read_view(m, v)
        elif t[0] == 'raise':
            do_raise(m, t[1])
        elif t[0] == 'with':
            if t[2]:
                try:
                    with m:
                        exec_tokens(m, t[1], log)
                except BaseException as e:
                    if isinstance(e, AssertionError):
                        raise
                    log.append(type(e).__name__)
            else:
                with m:
                    exec_tokens(m, t[1], log)
        else:
            raise AssertionError(t)


def model_tokens(state, toks):
    """(state after, kind of the exception that leaves the token list or None)"""
    for t in toks:
        if t[0] == 'edit':
            state.apply(t[1])
        elif t[0] == 'raise':
            return state, t[1]
        elif t[0] == 'with':
            inner, r = model_tokens(state.copy(), t[1])
            if r is None:
                state = inner
            elif not t[2]:
                return state, r
    return state, None


def _gen_edits(model, kinds, rng, reads):
    toks = []
    for k in kinds:
        c = model.candidates(k, rng, _ISO)
        if not c:
            continue
        model.apply(c[0])
        toks.append(('edit', c[0]))
        if reads == 'all':
            toks.append(('read', 'all'))
        elif reads == 'views':
            toks.append(('read', tuple(v for v in V.VIEW_NAMES if rng.random() < .4)))
    return toks


def t_scenarios(si, rng, quick):
    """[(shape, tokens of the top-level block)]"""
    base = Model(t_seed(si))
    out = []
    exc_kinds = EXC_KINDS if base.atoms else ('boom', 'base')
    # flat: one edit of every kind x exception position x exception kind x reads
    for k in EDIT_KINDS:
        for reads in ('none', 'all'):
            toks = _gen_edits(base.copy(), [k], rng, reads)
            if not toks:
                continue
            out.append(('flat-commit', toks))
            for ek in exc_kinds:
                for pos in (0, len(toks)):
                    if pos == 0 and (reads == 'all' or (quick and ek not in ('boom', 'lib:dup-bond'))):
                        continue  # before any edit: every exception source only in the thorough tier
                    out.append((f'flat-rollback:{ek.split(":")[0]}', toks[:pos] + [('raise', ek)] + toks[pos:]))
    # flat: two / three edits, exception between and after
    n2, n3 = (24, 12) if quick else (121, 60)
    pairs = [(a, b) for a in EDIT_KINDS for b in EDIT_KINDS]
    rng.shuffle(pairs)
    for ks in pairs[:n2] + [tuple(rng.choice(EDIT_KINDS) for _ in range(3)) for _ in range(n3)]:
        reads = rng.choice(('none', 'views', 'all'))
        toks = _gen_edits(base.copy(), ks, rng, reads)
        edits = [i for i, t in enumerate(toks) if t[0] == 'edit']
        out.append(('flat-commit', toks))
        for p in edits[1:] + [len(toks)]:
            out.append((f'flat-rollback:{"boom"}', toks[:p] + [('raise', 'boom')] + toks[p:]))
    # nested
    for _ in range(3 if quick else 12):
        for inner in ('commit', 'caught', 'propagates'):
            for outer in ('commit', 'rollback'):
                if inner == 'propagates' and outer == 'commit':
                    continue  # the exception leaves both blocks: the outer one cannot commit
                model = base.copy()
                reads = rng.choice(('none', 'views', 'all'))
                t1 = _gen_edits(model, [rng.choice(EDIT_KINDS) for _ in range(rng.choice((0, 1, 1)))], rng, reads)
                inner_model = model.copy()
                t2 = _gen_edits(inner_model, [rng.choice(EDIT_KINDS) for _ in range(rng.choice((1, 1, 2)))], rng, reads)
                if inner == 'commit':
                    model = inner_model
                else:
                    t2 = t2 + [('raise', rng.choice(('boom', 'base', 'lib:loop') if base.atoms else ('boom', 'base')))]
                t3 = _gen_edits(model, [rng.choice(EDIT_KINDS) for _ in range(rng.choice((0, 1, 1)))], rng, reads)
                toks = t1 + [('with', t2, inner == 'caught')] + t3
                if outer == 'rollback' and inner != 'propagates':
                    toks.append(('raise', 'boom'))
                out.append((f'nested({inner},{outer})', toks))
    return out


def t_case(si, shape, toks, warm):
    m = t_seed(si)
    probs = []
    if warm:
        K.warm(m)
    pre_all = K.read_all(m) if warm else None
    if not warm:
        m.flush_cache()
    raw0 = V.raw_snapshot(m)
    h0 = B.hstate(m)
    model, expect_exc = model_tokens(Model(m), toks)
    if expect_exc is not None:
        model = Model(m)  # the top-level block raises: exactly the prior molecule
    got = None
    log = []
    try:
        with m:
            exec_tokens(m, toks, log)
    except BaseException as e:
        if isinstance(e, AssertionError):
            raise
        got = type(e).__name__
    want = None if expect_exc is None else EXC_CLASS[expect_exc]
    if got != want:
        probs.append((f'exc:{got}', f'the block was left by {got}, expected {want}'))
    inner_want = [EXC_CLASS[x[1]] for t in toks if t[0] == 'with' and t[2] for x in t[1] if x[0] == 'raise']
    if log != inner_want:
        probs.append((f'exc:{log and log[0]}', f'the inner block was left by {log}, expected {inner_want}'))
    if expect_exc is not None:
        raw1 = V.raw_snapshot(m)
        for f in V.snapshot_diff(raw0, raw1):
            probs.append((f'atomic:{f}-not-restored', f'{f}: before {B._short(raw0[f])} after {B._short(raw1[f])}'))
    if m._backup is not None:
        probs.append(('atomic:backup-kept', '_backup is not None after the block'))
    g = B.gstate(m)
    if g[0] != model.atoms:
        diff = sorted(n for n in set(g[0]) | set(model.atoms) if g[0].get(n) != model.atoms.get(n))
        probs.append(('frame:atoms', f'atoms {diff[:5]} differ from the model of the block: {[(g[0].get(n), model.atoms.get(n)) for n in diff[:3]]}'))
    if g[1] != model.bonds:
        diff = [sorted(e) for e in set(g[1]) | set(model.bonds) if g[1].get(e) != model.bonds.get(e)]
        probs.append(('frame:bonds', f'bonds {diff[:5]} differ from the model of the block'))
    if dict(m._meta or {}) != model.meta or m._name != model.name:
        probs.append(('frame:meta', f'meta/name {m._meta!r} {m._name!r}, model {model.meta!r} {model.name!r}'))
    if any(f.startswith(('frame:atoms', 'frame:bonds')) for f, _ in probs) and B.V.adjacency_defects(m):
        return probs
    p, calc, _ = B.coherence(m, allkeys=True)
    probs += p
    if calc is not None and not p:
        post = B.hstate(m)
        bad = [(n, h, calc[n]) for n, h in post.items()
               if (h != calc[n] if (expect_exc is None and n in model.touched) else h not in (calc[n], h0.get(n, calc[n])))]
        if expect_exc is not None:
            bad = [(n, h, h0.get(n)) for n, h in post.items() if h != h0.get(n)]
        if bad:
            probs.append(('stale:implicit_hydrogens', f'(atom, count, fresh count): {bad[:4]}'))
    if pre_all is not None and expect_exc is not None and not probs:
        a1 = K.read_all(m)
        bad = [k for k in pre_all if pre_all[k] != a1[k]]
        if bad:
            probs.append(('atomic:views-not-restored', f'members {bad[:5]} differ from their values before the failed block'))
    if not probs and m._atoms:
        probs += B.probe_transaction(m)
        p, _ = B.probe_destructive(m, full=True)
        probs += [(f + ':edit-probe', d) for f, d in p]
    elif not probs:  # still empty: usable = an atom can be added (in a failing block and for good)
        try:
            try:
                with m:
                    m.add_atom('C')
                    raise B._Boom
            except B._Boom:
                pass
            if m._atoms or m._backup is not None:
                probs.append(('atomic:atoms-not-restored', 'probe on the empty molecule: atom kept after the failed block'))
            m.add_atom('O')
        except Exception as e:
            probs.append((f'editable:{type(e).__name__}', f'edit probe on the empty molecule raised {type(e).__name__}: {e}'))
        probs += [(f + ':edit-probe', d) for f, d in B.coherence(m, allkeys=True)[0]]
    return probs


def t_family(shape, toks, f):
    """violation family of a transaction scenario.  Nested blocks rest on ONE backup slot: the two ways this breaks are keyed by a
    predicate on the scenario (not on the contract that happens to notice), everything else by contract and shape"""
    if shape.startswith('nested'):
        before = []
        for t in toks:
            if t[0] == 'with':
                break
            before.append(t)
        if any(t[0] == 'edit' and t[1][0] in ('add', 'addn', 'bond', 'bond8') for t in before):
            return 'atomic@txn:nested-after-pending-new-atom-or-bond'  # the inner __enter__ copies a molecule with unlabelled atoms / bonds
        if shape.endswith(',rollback)'):
            return 'atomic@txn:nested-outer-raises'  # the inner __exit__ dropped the backup the outer rollback needs
    return f'{f}@txn:{shape}'


def t_worker(item):
    _imports()
    si, seed, quick = item
    rng = random.Random(f'{seed}:txn:{(T_SEEDS + T_ONLY)[si][0]}')
    n, keys, fails = 0, [], []
    for j, (shape, toks) in enumerate(t_scenarios(si, rng, quick)):
        for warm in (True, False):
            if quick and not warm and j % 2:
                continue  # cold start: every second scenario in the quick tier
            probs = t_case(si, shape, toks, warm)
            n += 1
            keys.append(f'{si}:{j}:{warm}')
            for f, d in probs:
                fails.append((t_family(shape, toks, f), f'{f}: {d}', {'part': 'T', 'seed_index': si, 'seed': (T_SEEDS + T_ONLY)[si][0], 'shape': shape,
                                                     'tokens': _plain(toks), 'warm': warm, 'text': t_text(toks)}))
    return n, keys, fails


def _plain(x):
    return [_plain(y) for y in x] if isinstance(x, (list, tuple)) else x


def _tuple(x):
    return tuple(_tuple(y) for y in x) if isinstance(x, list) else x


def t_text(toks):
    out = []
    for t in toks:
        if t[0] == 'edit':
            out.append(t[1][0] + '(' + ','.join(map(str, t[1][1:])) + ')')
        elif t[0] == 'read':
            out.append('read-all' if t[1] == 'all' else f'read{len(t[1])}')
        elif t[0] == 'raise':
            out.append(f'raise[{t[1]}]')
        else:
            out.append(('try{with{' if t[2] else 'with{') + ';'.join(t_text(t[1])) + ('}}' if t[2] else '}'))
    return out


# ---------------------------------------------------------------------------------------------------------------------------
# part K: copies / substructures / unions from cold and warm sources, keep flags
# ---------------------------------------------------------------------------------------------------------------------------
K_EXTRA = [('fused', 'c1ccc2[nH]ccc2c1', None), ('spiro-salt', 'C1CC2(C1)CCC2.[Na+].[Cl-]', None), ('dienes', 'C/C=C/C=C/C.CC=[C@]=CC', None),
           ('explicit-h', '[H]C([H])([H])[C@]([H])(N)O', None)]
POST_KINDS = ('add_atom', 'add_bond', 'delete_atom', 'delete_bond', 'charge', 'radical', 'remap', 'explicify', 'kekule', 'thiele', 'fail')


def k_seed(i):
    seeds = T_SEEDS + K_EXTRA
    name, smi, mp = seeds[i]
    m = parse(smi)
    if mp:
        m.remap(mp)
    m.name = name
    m.meta['seed'] = name
    B.lay_out(m, smi, always=True)
    return m


def k_producers(m, rng):
    out = [('copy_flags', a, b) for a in _TF for b in _TF] + [('copy_copy',), ('split',)]
    atoms = list(m._atoms)
    out += [('augs', (rng.choice(atoms),), d) for d in (1, 3)]
    for kind in ('sub', 'union_or', 'union_inplace', 'copy'):
        c = B.candidates(m, kind, rng)
        if kind == 'sub':
            by = {}
            for o in c:
                by.setdefault(o[2] if len(o) > 2 else 'default', []).append(o)
            c = [rng.choice(v) for v in by.values()]
        elif kind != 'copy':
            c = [o for o in c if o[1] in ('CO', 'C[C@H](N)O')]
        out += c
    out += [('flush', a, b) for a in _TF for b in _TF]
    out.append(('invalid',))
    return out


def invalid_calls(m):
    """[(text, thunk)] calls whose arguments violate a documented precondition: each must raise and leave the molecule as it was"""
    atoms = list(m._atoms)
    a = atoms[0]
    mx = max(atoms)
    bonded = next(((x, y) for x, y, _ in m.bonds()), None)
    free = next(((x, y) for i, x in enumerate(atoms) for y in atoms[i + 1:] if y not in m._bonds[x]), None)
    other = parse('CO')
    calls = [
        ('add_atom(C, existing number)', lambda: m.add_atom('C', a)),
        ('add_atom(C, "x")', lambda: m.add_atom('C', 'x')),
        ('add_atom(None)', lambda: m.add_atom(None)),
        ('add_atom("Xx")', lambda: m.add_atom('Xx')),
        ('add_bond(a, a)', lambda: m.add_bond(a, a, 1)),
        ('add_bond(a, missing)', lambda: m.add_bond(a, mx + 9, 1)),
        ('add_bond(order 5)', (lambda: m.add_bond(free[0], free[1], 5)) if free else None),
        ('add_bond(bonded pair)', (lambda: m.add_bond(bonded[0], bonded[1], 1)) if bonded else None),
        ('delete_atom(missing)', lambda: m.delete_atom(mx + 9)),
        ('delete_bond(not bonded)', (lambda: m.delete_bond(free[0], free[1])) if free else None),
        ('delete_bond(missing atom)', lambda: m.delete_bond(a, mx + 9)),
        ('remap(two atoms to one number)', (lambda: m.remap({atoms[0]: mx + 5, atoms[1]: mx + 5})) if len(atoms) > 1 else None),
        ('remap(onto a kept atom)', (lambda: m.remap({atoms[0]: atoms[1]})) if len(atoms) > 1 else None),
        ('substructure([])', lambda: m.substructure([])),
        ('substructure([missing])', lambda: m.substructure([mx + 9])),
        ('m - all atoms', lambda: m - atoms),
        ('m - [missing]', lambda: m - [mx + 9]),
        ('augmented_substructure([missing])', lambda: m.augmented_substructure([mx + 9], deep=1)),
        ('union(colliding numbers, remap=False)', (lambda: m.union(other, remap=False)) if 1 in m._atoms else None),
        ('union(colliding numbers, remap=False, copy=False)', (lambda: m.union(other, remap=False, copy=False)) if 1 in m._atoms else None),
        ('union(not a molecule)', lambda: m.union('CO')),
        ('atom(a).charge = 5', lambda: setattr(m.atom(a), 'charge', 5)),
        ('atom(a).charge = "1"', lambda: setattr(m.atom(a), 'charge', '1')),
        ('atom(a).is_radical = 1', lambda: setattr(m.atom(a), 'is_radical', 1)),
        ('atom(a).isotope = 999', lambda: setattr(m.atom(a), 'isotope', 999)),
        ('name = 5', lambda: setattr(m, 'name', 5)),
    ]
    return [(t, f) for t, f in calls if f is not None]


def _components(atoms, bonds):
    left, out = set(atoms), []
    while left:
        comp, todo = set(), [left.pop()]
        while todo:
            n = todo.pop()
            comp.add(n)
            for e in bonds:
                if n in e:
                    k = next(iter(e - {n}))
                    if k not in comp:
                        todo.append(k)
        left -= comp
        out.append(sorted(comp))
    return sorted(out)


def _check_object(c, tag, expect, hsame, src, others):
    """frame + coherence (every member) + independence of one produced object"""
    probs = []
    g = B.gstate(c)
    if expect is not None and (g[0] != expect[0] or g[1] != expect[1]):
        probs.append((f'frame:atoms@{tag}', f'result differs from the expected graph: atoms {sorted(set(g[0]) ^ set(expect[0]))[:6]}'))
    p, calc, _ = B.coherence(c, allkeys=True)
    probs += [(f'{f}@{tag}', d) for f, d in p]
    if hsame is not None and calc is not None:
        bad = [(n, a.implicit_hydrogens, hsame.get(n)) for n, a in c._atoms.items() if a.implicit_hydrogens != hsame.get(n)]
        if bad:
            probs.append((f'stale:implicit_hydrogens@{tag}', f'(atom, count, count of the source): {bad[:4]}'))
    probs += [(f'{f}@{tag}', d) for f, d in B.independence(c, [('source', src)] + others)]
    return probs


def k_case(si, warm, pi, post_i, side, seed):
    rng = random.Random(f'{seed}:K:{si}')
    m = k_seed(si)
    prods = k_producers(m, rng)
    if pi >= len(prods):
        return [], None, True
    prod = prods[pi]
    rng = random.Random(f'{seed}:K:{si}:{pi}:{warm}:{post_i}:{side}')
    probs = []
    if warm:
        K.warm(m)
        src_all = K.read_all(m)
    else:
        src_all = K.read_all(m)
        m.flush_cache()
    raw0 = V.raw_snapshot(m)
    atoms0, bonds0 = B.gstate(m)
    h0 = B.hstate(m)
    results = []  # (object, tag)
    source = m
    in_place = False
    k = prod[0]
    if k == 'invalid':
        tag = 'invalid-call'
        for text, thunk in invalid_calls(m):
            try:
                thunk()
            except Exception:
                pass
            else:
                continue  # accepted: no claim
            d = V.snapshot_diff(raw0, V.raw_snapshot(m))
            if d or m._backup is not None:
                probs.append((f'exceptions:changed-by-rejected-call@{text.split("(")[0].split(" ")[0]}', f'{text} raised but changed {d}'))
                break
        else:
            a1 = K.read_all(m)
            bad = [x for x in src_all if src_all[x] != a1[x]]
            if bad:
                probs.append((f'exceptions:views-changed-by-rejected-calls@{tag}', f'members {bad[:5]} changed by calls that raised'))
            probs += [(f'{f}@{tag}', d) for f, d in B.coherence(m, allkeys=True)[0]]
            if not probs:
                probs += [(f'{f}@{tag}', d) for f, d in B.probe_transaction(m)]
        return probs, prod, False
    if k == 'flush':
        tag = 'flush_cache'
        m.flush_cache(keep_sssr=prod[1], keep_components=prod[2])
        if V.snapshot_diff(raw0, V.raw_snapshot(m)):
            probs.append((f'frame:raw@{tag}', 'flush_cache changed the stored state'))
        a1 = K.read_all(m)
        bad = [x for x in src_all if src_all[x] != a1[x]]
        if bad:
            probs.append((f'stale:key.{bad[0]}@{tag}', f'members {bad[:5]} changed by flush_cache{prod[1:]} without an edit'))
        probs += [(f'{f}@{tag}', d) for f, d in B.coherence(m, allkeys=True)[0]]
        if probs:
            return probs, prod, False
        # documented manual route after an attribute edit outside a transaction
        tag = 'flush_cache:manual-edit'
        K.warm(m)
        n = rng.choice(list(m._atoms))
        what = ('charge', 'radical', 'isotope')[post_i % 3]
        a = m.atom(n)
        z, iso, c, r = atoms0[n]
        if what == 'charge':
            c = rng.choice([x for x in (-1, 0, 1) if x != c])
            a.charge = c
        elif what == 'radical':
            r = not r
            a.is_radical = r
        else:
            iso = None if iso is not None else sorted(a.isotopes_distribution)[-1]
            a.isotope = iso
        m.flush_cache(keep_sssr=prod[1], keep_components=prod[2])
        m.fix_structure()
        m.fix_stereo()
        atoms0[n] = (z, iso, c, r)
        g = B.gstate(m)
        if g != (atoms0, bonds0):
            probs.append((f'frame:atoms@{tag}', 'graph differs from the expected one'))
        probs += [(f'{f}@{tag}', d) for f, d in B.coherence(m, allkeys=True)[0]]
        if not probs:
            probs += [(f'{f}@{tag}', d) for f, d in B.probe_transaction(m)]
        return probs, prod + (what, n), False
    if k == 'copy_flags':
        tag = 'copy'
        c = m.copy(keep_sssr=prod[1], keep_components=prod[2])
        d = V.snapshot_diff(raw0, V.raw_snapshot(c))
        if d:
            probs.append((f'independent:copy-differs-{d[0]}@{tag}', f'copy{prod[1:]} differs from source in {d}'))
        probs += _check_object(c, tag, (atoms0, bonds0), h0, m, [])
        results = [(c, tag)]
    elif k == 'copy_copy':
        tag = 'copy'
        c = _copy.copy(m)
        d = V.snapshot_diff(raw0, V.raw_snapshot(c))
        if d:
            probs.append((f'independent:copy-differs-{d[0]}@{tag}', f'copy.copy differs from source in {d}'))
        probs += _check_object(c, tag, (atoms0, bonds0), h0, m, [])
        results = [(c, tag)]
    elif k == 'split':
        tag = 'split'
        parts = m.split()
        comps = _components(atoms0, bonds0)
        if sorted(sorted(p._atoms) for p in parts) != sorted(sorted(c) for c in comps):
            probs.append((f'frame:atoms@{tag}', f'split() atom sets {[sorted(p._atoms) for p in parts]} expected {comps}'))
        for p in parts:
            keep = set(p._atoms)
            others = [('sibling', q) for q in parts if q is not p]
            probs += _check_object(p, tag, ({n: v for n, v in atoms0.items() if n in keep}, {e: v for e, v in bonds0.items() if e <= keep}), h0, m, others)
            results.append((p, tag))
    elif k == 'augs':
        tag = 'augmented_substructures'
        parts = m.augmented_substructures(prod[1], deep=prod[2])
        shells = [set(prod[1])]
        for _ in range(prod[2]):
            nx = B._ball(m, shells[-1], 1)
            if nx == shells[-1]:
                break
            shells.append(nx)
        if [set(p._atoms) for p in parts] != shells:
            probs.append((f'frame:atoms@{tag}', f'atom sets {[sorted(p._atoms) for p in parts]} expected {[sorted(s) for s in shells]}'))
        for p in parts:
            keep = set(p._atoms)
            probs += _check_object(p, tag, ({n: v for n, v in atoms0.items() if n in keep}, {e: v for e, v in bonds0.items() if e <= keep}), None, m, [])
            results.append((p, tag))
    else:
        tag = k
        st, p, _ = B.step(B.State(m, [], None), prod, (), False, allkeys=False)
        probs += p
        c = st.cur
        if not p:
            probs += [(f'{f}@{tag}', d) for f, d in B.coherence(c, allkeys=True)[0]]
        results = [(c, tag)]
        in_place = c is m
    if not in_place:
        d = V.snapshot_diff(raw0, V.raw_snapshot(m))
        if d:
            probs.append((f'independent:source-changed@{tag}', f'the source changed in {d} while {prod[0]} was made'))
        a1 = K.read_all(m)
        bad = [x for x in src_all if src_all[x] != a1[x]]
        if bad:
            probs.append((f'independent:source-views-changed@{tag}', f'members {bad[:5]} of the source changed while {prod[0]} was made'))
    if probs or not results:
        return probs, prod, False
    # an edit of one side; both sides re-checked
    obj, tag = results[rng.randrange(len(results))]
    if in_place:
        side = 'result'
    target, other = (obj, source) if side == 'result' else (source, obj)
    kind = POST_KINDS[post_i % len(POST_KINDS)]
    cands = B.candidates(target, kind, rng)
    if not cands:
        return probs, prod, False
    op = rng.choice(cands)
    K.warm(target)
    K.warm(other)
    other_raw = V.raw_snapshot(other)
    other_all = K.read_all(other)
    st, p, _ = B.step(B.State(target, [], None), op, (), False, allkeys=True)
    etag = f'{B.op_text(op).split("(")[0]}/{side}-of-{tag}'
    probs += p  # the family of the operation itself (same key wherever the same root cause is met)
    if other is not st.cur and not in_place:
        d = V.snapshot_diff(other_raw, V.raw_snapshot(other))
        if d:
            probs.append((f'independent:other-side-changed@{etag}', f'{"source" if side == "result" else "result"} changed in {d} after {B.op_text(op)}'))
        a1 = K.read_all(other)
        bad = [x for x in other_all if other_all[x] != a1[x]]
        if bad:
            probs.append((f'independent:other-side-views-changed@{etag}', f'members {bad[:5]} of the other side changed after {B.op_text(op)}'))
        probs += [(f'{f}@other-side-of-{etag}', d) for f, d in B.coherence(other, allkeys=True)[0]]
    return probs, prod + ('then', B.op_text(op), side), False


def k_worker(item):
    _imports()
    si, seed, quick = item
    n, keys, fails = 0, [], []
    m = k_seed(si)
    np_ = len(k_producers(m, random.Random(f'{seed}:K:{si}')))
    for pi in range(np_):
        for warm in (True, False):
            for rep in range(2 if quick else 6):
                post_i = (pi + rep * 5 + (3 if warm else 0)) % len(POST_KINDS)
                side = ('result', 'source')[(pi + rep + warm) % 2]
                probs, prod, skipped = k_case(si, warm, pi, post_i, side, seed)
                if skipped:
                    continue
                n += 1
                keys.append(f'{si}:{pi}:{warm}:{rep}')
                for f, d in probs:
                    fails.append((f, d, {'part': 'K', 'seed_index': si, 'seed': (T_SEEDS + K_EXTRA)[si][0], 'warm': warm, 'producer_index': pi,
                                         'post': post_i, 'side': side, 'vseed': seed, 'producer': _plain(prod)}))
    return n, keys, fails


# ---------------------------------------------------------------------------------------------------------------------------
def replay(w):
    """families reproduced by the witness of one of the parts"""
    _imports()
    if w['part'] == 'X':
        probs, _, _ = x_case(w['smiles'], w['form'], x_ops()[w['op']], w['mode'], w['seed'])
        return [f for f, _ in probs]
    if w['part'] == 'T':
        toks = _tuple(w['tokens'])
        return [t_family(w['shape'], toks, f) for f, _ in t_case(w['seed_index'], w['shape'], toks, w['warm'])]
    if w['part'] == 'K':
        probs, _, _ = k_case(w['seed_index'], w['warm'], w['producer_index'], w['post'], w['side'], w['vseed'])
        return [f for f, _ in probs]
    raise AssertionError(w)
