"""Domain helper of the C01 / C02 bounded stand-ins (checks/b01.py, checks/b02.py).

A molecule of the domain is a plain picklable *record*

    {'id': str, 'atoms': [(symbol, isotope|None, charge, radical, h|None), ...],      # index = node
     'bonds': [(i, j, order), ...],
     'tet': [(centre, (nb, nb, nb[, nb]), mark), ...],                               # configuration w.r.t. an explicit order
     'ct':  [(n, m, n1, n2, mark), ...], 'al': [(centre, n1, n2, mark), ...]}

so that it can be rebuilt through the public `add_atom` / `add_bond` / `add_atom_stereo` / `add_cis_trans_stereo` API under any
atom numbering and any insertion order (the stored stereo sign of chython is relative to the neighbour *insertion* order, so a
faithful insertion-order shuffle has to go through the explicit-order API exactly as the SMILES reader does).

Generators: decorated graph-atlas molecules (elements, bond orders, charges up to +-3, isotopes, radicals, ions / second components,
every labelling of the stereo elements chython itself perceives) and records of corpus molecules.  All sampled choices are seeded.
"""
import itertools

from bounded import domains as D

ELEMENTS = ('C', 'C', 'C', 'C', 'N', 'O', 'S', 'P', 'B', 'F', 'Cl', 'Br', 'I', 'Si')
LEAF_ELEMENTS = ('C', 'N', 'O', 'S', 'F', 'Cl', 'Br', 'I', 'C', 'O')
# (atoms, bonds) of spectator components used for multi-component decorations; several differ in charge / isotope only
IONS = (
    ([('Na', None, 1, False, None)], []), ([('Cl', None, -1, False, None)], []), ([('Fe', None, 2, False, None)], []),
    ([('Fe', None, 3, False, None)], []), ([('Al', None, 3, False, None)], []), ([('O', None, 0, False, None)], []),
    ([('Cl', 37, -1, False, None)], []), ([('Ca', None, 2, False, None)], []), ([('O', None, -2, False, None)], []),
    ([('N', None, -3, False, None)], []), ([('C', 13, 0, False, None)], []), ([('C', None, 0, False, None)], []),
    ([('H', 2, 1, False, None)], []), ([('H', None, 1, False, None)], []), ([('P', None, -3, False, None)], []),
    ([('C', None, 0, False, None), ('O', None, -1, False, None)], [(0, 1, 1)]),
    ([('N', None, 1, False, None), ('O', None, -1, False, None), ('O', None, 0, False, None), ('O', None, -1, False, None)],
     [(0, 1, 1), (0, 2, 2), (0, 3, 1)]),
)


def _element(sym, isotope=None, charge=0, radical=False, h=None):
    from chython.periodictable import Element
    return Element.from_symbol(sym)(isotope, charge=charge, is_radical=radical, implicit_hydrogens=h)


def apply_stereo(m, tet, ct, al):
    """the reader's own loop (files/daylight/smiles.py:postprocess_molecule): labels are offered until no further one is accepted"""
    from chython.exceptions import NotChiral, IsChiral
    todo = [(m.add_atom_stereo, c, tuple(env), bool(s)) for c, env, s in tet]
    todo += [(m.add_atom_stereo, c, (n1, n2), bool(s)) for c, n1, n2, s in al]
    todo += [(m.add_cis_trans_stereo, n, k, n1, n2, bool(s)) for n, k, n1, n2, s in ct]
    dropped = 0
    while todo:
        fail = []
        for f, *args in todo:
            try:
                f(*args)
            except NotChiral:
                fail.append((f, *args))
            except IsChiral:
                pass
        if len(fail) == len(todo):
            dropped = len(fail)
            break
        todo = fail
    return dropped


def build_rec(rec, perm=None, node_order=None, edge_order=None, flip_edges=None, stereo=True, offset=1):
    """MoleculeContainer of a record: node v gets atom number perm[v] + offset; atoms are added in node_order, bonds in edge_order
    (indices into rec['bonds']), bond i is added as (b, a) instead of (a, b) when i in flip_edges.  Returns (molecule, dropped)."""
    from chython.containers import MoleculeContainer
    atoms = rec['atoms']
    n = len(atoms)
    num = (lambda v: perm[v] + offset) if perm is not None else (lambda v: v + offset)
    m = MoleculeContainer()
    given_h = all(a[4] is not None for a in atoms)
    for v in (node_order if node_order is not None else range(n)):
        sym, iso, ch, rad, h = atoms[v]
        m.add_atom(_element(sym, iso, ch, rad, h), num(v), _skip_calculation=True)
    bonds = rec['bonds']
    for i in (edge_order if edge_order is not None else range(len(bonds))):
        a, b, o = bonds[i]
        if flip_edges and i in flip_edges:
            a, b = b, a
        m.add_bond(num(a), num(b), o, _skip_calculation=True)
    if given_h:
        m.calc_labels()
        m._changed = None
    else:
        m.fix_structure()
    dropped = 0
    if stereo and (rec.get('tet') or rec.get('ct') or rec.get('al')):
        dropped = apply_stereo(m, [(num(c), tuple(num(x) for x in env), s) for c, env, s in rec.get('tet', ())],
                               [(num(a), num(b), num(c), num(d), s) for a, b, c, d, s in rec.get('ct', ())],
                               [(num(c), num(a), num(b), s) for c, a, b, s in rec.get('al', ())])
    return m, dropped


def shuffled_build(rec, r, perm=None):
    """seeded numbering (if perm is None) + seeded insertion order; returns (molecule, dropped, witness)"""
    n = len(rec['atoms'])
    if perm is None:
        perm = list(range(n))
        r.shuffle(perm)
    no = list(range(n))
    r.shuffle(no)
    eo = list(range(len(rec['bonds'])))
    r.shuffle(eo)
    fl = [i for i in eo if r.random() < .5]
    m, dropped = build_rec(rec, perm, no, eo, set(fl))
    return m, dropped, {'perm': list(perm), 'node_order': no, 'edge_order': eo, 'flip_edges': fl}


def stereo_of(m, idx):
    """explicit-order description of every stereo label of m; idx: atom number -> node"""
    tet, ct, al = [], [], []
    st, sa = m.stereogenic_tetrahedrons, m.stereogenic_allenes
    for n, a in m.atoms():
        if a.stereo is None:
            continue
        if n in st:
            env = st[n]
            tet.append((idx[n], tuple(idx[x] for x in env), bool(m._translate_tetrahedron_sign(n, env))))
        elif n in sa:
            n1, n2 = sa[n][:2]
            al.append((idx[n], idx[n1], idx[n2], bool(m._translate_allene_sign(n, n1, n2))))
    seen = set()
    for (n, k), env in m.stereogenic_cis_trans.items():
        i, j = m._stereo_cis_trans_centers[n]
        if m._bonds[i][j].stereo is not None and (i, j) not in seen:
            seen.add((i, j))
            seen.add((j, i))
            n1, n2 = env[:2]
            ct.append((idx[n], idx[k], idx[n1], idx[n2], bool(m._translate_cis_trans_sign(n, k, n1, n2))))
    return tet, ct, al


def rec_of(m, ident, kekule=True, hydrogens=True):
    """record of a (normalised) molecule; Kekule form by default so that the rebuilt molecule has to be re-aromatised"""
    k = m.copy()
    if kekule:
        k.kekule()
    nums = list(k._atoms)
    idx = {n: i for i, n in enumerate(nums)}
    atoms = [(a.atomic_symbol, a.isotope, a.charge, a.is_radical, a.implicit_hydrogens if hydrogens else None)
             for a in (k._atoms[n] for n in nums)]
    bonds = [(idx[a], idx[b], bd.order) for a, b, bd in k.bonds()]
    tet, ct, al = stereo_of(k, idx)
    return {'id': ident, 'atoms': atoms, 'bonds': bonds, 'tet': tet, 'ct': ct, 'al': al}


def n_stereo(rec):
    return len(rec.get('tet', ())) + len(rec.get('ct', ())) + len(rec.get('al', ()))


def flip(rec, subset):
    """record with the stereo elements whose ordinal (tet, then ct, then al) is in subset inverted"""
    out = dict(rec)
    k = 0
    for name in ('tet', 'ct', 'al'):
        new = []
        for e in rec.get(name, ()):
            new.append((*e[:-1], (not e[-1]) if k in subset else e[-1]))
            k += 1
        out[name] = new
    out['id'] = rec['id'] + '/flip' + ''.join(str(i) for i in sorted(subset))
    return out


# ---- atlas decorations ----------------------------------------------------------------------------------------------------

def _cumulene_paths(g):
    """chains of 1-3 consecutive edges whose inner atoms have degree 2 and whose ends carry one or two more substituents"""
    import networkx as nx
    deg = dict(g.degree())
    nodes = list(g.nodes)
    paths = []
    for x in nodes:
        for y in nodes:
            if x < y:
                for pth in nx.all_simple_paths(g, x, y, cutoff=3):
                    if all(deg[v] == 2 for v in pth[1:-1]) and all(2 <= deg[v] <= 3 for v in (pth[0], pth[-1])):
                        paths.append(pth)
    return paths


def _decorate(g, r, kind):
    """seeded decoration of an atlas graph: (atoms, bonds); kinds: plain (all-carbon, single bonds), mixed (elements + bond orders),
    stereo (distinct leaves on a carbon/nitrogen skeleton), cumul (a chain of 1-3 consecutive double bonds + distinct leaves),
    polyene (matching of double bonds)"""
    deg = dict(g.degree())
    nodes = list(g.nodes)
    if kind == 'plain':
        el = {v: 'C' for v in nodes}
    elif kind in ('stereo', 'cumul'):
        el = {v: (r.choice(LEAF_ELEMENTS) if deg[v] <= 1 else r.choice(('C', 'C', 'C', 'C', 'N'))) for v in nodes}
    else:
        el = {v: (r.choice(LEAF_ELEMENTS) if deg[v] <= 1 and r.random() < .5 else r.choice(ELEMENTS)) for v in nodes}
    od = {e: 1 for e in g.edges}
    if kind == 'polyene':
        # seeded maximal matching on the atoms of degree <= 3: a Kekule-like pattern of double bonds (conjugated, often non-aromatic
        # rings - the inputs where bond orders, not hydrogen counts, have to break ties), carbon with a few nitrogens
        el = {v: (r.choice(('C', 'C', 'C', 'C', 'N')) if deg[v] >= 2 else r.choice(('C', 'C', 'O', 'S', 'N'))) for v in nodes}
        used = set()
        edges = list(g.edges)
        r.shuffle(edges)
        for a, b in edges:
            if a in used or b in used or deg[a] > 3 or deg[b] > 3 or r.random() < .15:
                continue
            od[(a, b)] = 2
            used.add(a)
            used.add(b)
    elif kind == 'cumul':
        # a chain of 1-3 consecutive double bonds whose inner atoms have degree 2 and whose ends carry at least one substituent:
        # stereogenic alkenes, allenes, cumulenes whenever the decoration makes the substituents distinct
        paths = _cumulene_paths(g)
        long = [pth for pth in paths if len(pth) >= 3]
        if long and r.random() < .6:
            path = r.choice(long)
        elif paths:
            path = r.choice(paths)
        else:
            path = [nodes[0]]
        for a, b in zip(path, path[1:]):
            od[(a, b) if (a, b) in od else (b, a)] = 2
            el[a] = el[b] = 'C'
    else:
        p2, p3 = (.3, .03) if kind == 'stereo' else (.25, .06) if kind != 'plain' else (0, 0)
        for e in g.edges:
            x = r.random()
            if x < p3 and all(deg[v] <= 2 for v in e):
                od[e] = 3
            elif x < p2 + p3 and all(deg[v] <= 3 for v in e):
                od[e] = 2
    pos = {v: i for i, v in enumerate(nodes)}
    return [(el[v], None, 0, False, None) for v in nodes], [(pos[a], pos[b], od[(a, b)]) for a, b in g.edges]


def _decorate_sym(g, r):
    """symmetric decoration: one element per automorphism orbit of the bare graph, one bond order per edge orbit (meso forms,
    R/S pairs, symmetric dienes and allenes - the inputs that need the stereo-aware tie breaking of the canonicaliser)"""
    from networkx.algorithms.isomorphism import GraphMatcher
    nodes = list(g.nodes)
    deg = dict(g.degree())
    autos = list(GraphMatcher(g, g).isomorphisms_iter())
    norb = {v: min(a[v] for a in autos) for v in nodes}
    eorb = {e: min(tuple(sorted((a[e[0]], a[e[1]]))) for a in autos) for e in g.edges}
    pick = {}
    for v in nodes:
        o = norb[v]
        if o not in pick:
            pick[o] = r.choice(LEAF_ELEMENTS) if deg[v] <= 1 else r.choice(('C', 'C', 'C', 'C', 'N'))
    epick = {}
    for e in g.edges:
        o = eorb[e]
        if o not in epick:
            x = r.random()
            epick[o] = 2 if x < .3 and all(deg[v] <= 3 for v in e) else 1
    pos = {v: i for i, v in enumerate(nodes)}
    return [(pick[norb[v]], None, 0, False, None) for v in nodes], [(pos[a], pos[b], epick[eorb[(a, b)]]) for a, b in g.edges]


def _variants(atoms, bonds, r, k=2):
    """charge / isotope / radical variants of a valid neutral decoration; chemically plausible edits first (onium, -ate, carbanion,
    carbocation, radical in place of a hydrogen), plus unconstrained ones; invalid results are filtered by the caller"""
    from chython.periodictable import Element
    out = []
    for _ in range(k):
        new = [list(a) for a in atoms]
        for _ in range(r.choice((1, 1, 2, 3))):
            v = r.randrange(len(new))
            x = r.random()
            if x < .3:
                new[v][1] = r.choice(sorted(Element.from_symbol(new[v][0])().isotopes_distribution))
            elif x < .5:
                new[v][3] = True
            elif x < .9:
                new[v][2] = r.choice((-1, 1))
            else:
                new[v][2] = r.choice((-3, -2, 2, 3))
        out.append(([tuple(a) for a in new], bonds))
    return out


def _with_component(atoms, bonds, comp):
    ca, cb = comp
    k = len(atoms)
    return atoms + list(ca), bonds + [(a + k, b + k, o) for a, b, o in cb]


def _perceived(m):
    """stereo elements chython itself perceives as chiral and unlabelled"""
    return sorted(m.chiral_tetrahedrons), sorted(m.chiral_cis_trans), sorted(m.chiral_allenes)


def stereo_labelings(rec, r, max_k=4, max_rounds=3):
    """all 2^k labelings (k <= max_k elements, seeded choice above) of the stereo elements chython perceives in the stereo-free
    record, followed (seeded) by the elements that become stereogenic only after labelling (pseudo-asymmetric ones)"""
    m, _ = build_rec(rec)
    if m.check_valence():
        return []
    t, c, a = _perceived(m)
    elems = [('t', n) for n in t] + [('c', nm) for nm in c] + [('a', n) for n in a]
    if not elems:
        return []
    if len(elems) > max_k:
        elems = r.sample(elems, max_k)
    out = []
    for marks in itertools.product((False, True), repeat=len(elems)):
        tet, ct, al = [], [], []
        for (kind, x), s in zip(elems, marks):
            if kind == 't':
                tet.append((x - 1, tuple(y - 1 for y in m.stereogenic_tetrahedrons[x]), s))
            elif kind == 'c':
                n1, n2 = m.stereogenic_cis_trans[x][:2]
                ct.append((x[0] - 1, x[1] - 1, n1 - 1, n2 - 1, s))
            else:
                n1, n2 = m.stereogenic_allenes[x][:2]
                al.append((x - 1, n1 - 1, n2 - 1, s))
        new = dict(rec, tet=tet, ct=ct, al=al, id=rec['id'] + '/st' + ''.join('01'[s] for s in marks))
        # second-generation (pseudo-asymmetric) elements, one seeded labelling
        for _ in range(max_rounds):
            m2, dropped = build_rec(new)
            t2, c2, a2 = _perceived(m2)
            if dropped or not (t2 or c2 or a2):
                break
            idx = {n: n - 1 for n in m2}
            for n in t2:
                new['tet'] = new['tet'] + [(n - 1, tuple(y - 1 for y in m2.stereogenic_tetrahedrons[n]), r.random() < .5)]
            for nm in c2:
                n1, n2 = m2.stereogenic_cis_trans[nm][:2]
                new['ct'] = new['ct'] + [(nm[0] - 1, nm[1] - 1, n1 - 1, n2 - 1, r.random() < .5)]
            for n in a2:
                n1, n2 = m2.stereogenic_allenes[n][:2]
                new['al'] = new['al'] + [(n - 1, n1 - 1, n2 - 1, r.random() < .5)]
            new['id'] += '+p'
        out.append(new)
    # partially specified stereo: exactly one of the k >= 2 elements labelled (a labelled centre next to an unlabelled, possibly
    # constitutionally equivalent twin).  Appended last and without seeded draws so that the records above keep their identity.
    if len(elems) >= 2:
        for i, (kind, x) in enumerate(elems):
            tet, ct, al = [], [], []
            if kind == 't':
                tet.append((x - 1, tuple(y - 1 for y in m.stereogenic_tetrahedrons[x]), True))
            elif kind == 'c':
                n1, n2 = m.stereogenic_cis_trans[x][:2]
                ct.append((x[0] - 1, x[1] - 1, n1 - 1, n2 - 1, True))
            else:
                n1, n2 = m.stereogenic_allenes[x][:2]
                al.append((x - 1, n1 - 1, n2 - 1, True))
            out.append(dict(rec, tet=tet, ct=ct, al=al, id=rec['id'] + f'/only{i}'))
    return out


def atlas_records(max_nodes, trials, tag='d01', stereo=True, components=True, max_k=4):
    """decorated atlas records (valence-valid only), de-duplicated by decoration.  Deterministic for a given VERIF_SEED."""
    import networkx as nx
    out = []
    kinds = ('stereo', 'mixed', 'cumul', 'sym', 'polyene')
    for g in D.atlas(max_nodes):
        seen = set()
        gname = g.name
        r = D.rnd(f'{tag}:{gname}')  # one generator per graph: decoration #t of graph G is the same molecule in every tier / check
        tree = nx.is_tree(g)
        plan = ['plain'] + [kinds[(t - 1) % 5] for t in range(1, trials + (trials if tree else 0))]
        # trees carry most of the stereo that is outside the documented gaps; graphs that can hold an allene / cumulene get more of those
        if any(len(pth) >= 3 for pth in _cumulene_paths(g)):
            plan += ['cumul'] * 3
        for t, kind in enumerate(plan):
            base = _decorate_sym(g, r) if kind == 'sym' else _decorate(g, r, kind)
            cands = [base]
            if kind in ('mixed', 'sym') or t == 0:
                cands += _variants(*base, r)
            for ci, (atoms, bonds) in enumerate(cands):
                atoms, bonds = list(atoms), list(bonds)
                if components and ci and r.random() < .3:
                    atoms, bonds = _with_component(atoms, bonds, r.choice(IONS))
                    if r.random() < .3:
                        atoms, bonds = _with_component(atoms, bonds, r.choice(IONS))
                elif components and kind != 'plain' and len(atoms) <= 3 and r.random() < .3:
                    atoms, bonds = _with_component(atoms, bonds, (atoms, bonds))  # the same molecule twice
                key = (tuple(atoms), tuple(bonds))
                if key in seen:
                    continue
                seen.add(key)
                rec = {'id': f'{gname}#{t}.{ci}', 'atoms': atoms, 'bonds': bonds, 'tet': [], 'ct': [], 'al': []}
                try:
                    m, _ = build_rec(rec)
                except ValueError:
                    continue
                if m.check_valence():
                    continue
                out.append(rec)
                if stereo:
                    out.extend(stereo_labelings(rec, r, max_k=max_k if (tree or kind != 'plain') else 2))
    return out


def ion_records():
    """pairs / triples of spectator components: charge-, isotope- and element-only differences between whole components"""
    out = []
    for i, j in itertools.combinations(range(len(IONS)), 2):
        atoms, bonds = _with_component(list(IONS[i][0]), list(IONS[i][1]), IONS[j])
        out.append({'id': f'ions{i}.{j}', 'atoms': atoms, 'bonds': bonds, 'tet': [], 'ct': [], 'al': []})
    return out


# hand-written seeds: unusual inputs the random decoration reaches only rarely
SPECIAL_SMILES = (
    'FC(Cl)=C=C(F)Cl', 'F[C@](Cl)(Br)I', 'F/C=C/F', 'F/C=C\\F', 'CC=C=CC', 'FC=C=C=CF', 'C(F)(Cl)=C=C=C(F)Cl',
    '[13CH3][C@H](F)[12CH3]', '[2H]C([3H])(F)Cl', 'C[C@H](F)[CH2]', '[CH2+][C@H](F)[CH2-]', '[Fe+3].[Fe+2].[Cl-].[37Cl-]',
    '[N-3].[Al+3]', '[P-3]', '[CH3].[CH3]', '[O][O]', 'C1CCC2(CC1)CCCCC2', 'C1=CC=CC=CC=C1', 'C1=CC=C1',
    'C[S+](C)[O-]', 'C[N+](C)(C)[O-]', '[NH4+].[OH-]', '[O-][Cl+3]([O-])([O-])[O-]', 'O=S(=O)([O-])[O-].[Mg+2]',
    'C12C3C4C1C5C2C3C45', 'c1ccc2c(c1)C1c3ccccc3C2c2ccccc12', 'C1CC2CCC1C2', 'C[C@H]1CC[C@@H](C)CC1', 'N[C@@H](C)C(=O)O',
    'C1CCCCCCCCC1C1CCCCCCCCC1', 'C/C=C/C=C/C=C\\C', 'C/C(F)=C(/C)Cl', 'F/C=C1/CC[C@H](C)CC1', 'OC1CCC(=CF)CC1',
    'C12=C3C4=C1C1=C2C3=C41', '[C-]#[O+]', 'C[Si](C)(C)C', 'B(O)(O)c1ccccc1', 'C1=CC2=CC=CC2=C1', 'c1cc[nH]c1', 'c1ccncc1',
    'C%10CCCCC%10', 'C1CC1C1CC1', 'C1CC12CC2', '[U+4]', 'C[Hg]C', '[Cu+2].[O-]C(=O)C.[O-]C(=O)C',
    'C(C1)(C2)(C3)C1C23', 'C1C2CC3CC1CC(C2)C3',
    'C[C@H](Cl)[C@@H](C)Cl', 'C[C@H](Cl)[C@H](C)Cl', 'O[C@H](C(O)=O)[C@@H](O)C(O)=O', 'O[C@H](C(O)=O)[C@H](O)C(O)=O',
    'F/C=C/C=C/F', 'F/C=C/C=C\\F', 'F/C=C\\C=C/F', 'C1CCC/C=C/CC1', 'C1CCC/C=C\\CC1', 'C1CCCCC/C=C/C=C/1', 'FC(Cl)=[C@]=C(F)Cl',
    'FC(Cl)=[C@@]=C(F)Cl', 'CC=[C@]=CC', 'C[C@H](F)C=[C@@]=C[C@H](C)F', 'F/C=C/[C@H](Cl)/C=C/F', 'F/C=C/[C@H](Cl)/C=C\\F',
    'C[C@H](O)[C@H](Cl)[C@@H](C)O', 'C[C@H](O)[C@@H](Cl)[C@@H](C)O', '[2H][C@H](C)O', '[2H][C@@]([3H])(F)Cl', 'C[C@H](F)[C@@H](C)[18F]',
    '[13CH3][CH2][12CH3]', '[CH2+]C[CH2-]', '[O-]C(=O)C([O])=O', '[NH3+][C@@H](C)C([O-])=O', 'C[P+](C)(C)[CH-]C', 'C=[N+]=[N-]',
    '[CH2]C(C)(C)[CH2]', 'C1CC1[C@H](F)C1CC1', 'OC[C@@H](O)[C@H](O)[C@@H](O)CO', 'OC[C@@H](O)[C@@H](O)[C@@H](O)CO',
    'C12=C3[C@]14C[C@]23C4', 'C12=C3[C@]14C[C@@]23C4', 'C1CCCCCCC12CCCCCCC2', 'N1CCC2(CC1)CCNCC2', 'C1CC[Si]2(CC1)CCCCC2',
    'C1CC2(C1)CCC2', 'C1CCC2(C1)CCCC2', 'C1CCC2(CC1)OCCO2', 'C1CC2(C1)CC1(C2)CCC1',
    'C[C@H](Cl)C(C)Cl', 'C[C@H]1CC(C)CNC1', 'F/C=C/C=CF', 'C[C@H](F)CCC(C)F', 'OC(=O)[C@H](O)C(O)C(O)=O', 'C[C@H](O)C(O)[C@@H](C)O',
)


def expander_records(n_atoms=36, count=2, tag='expander'):
    """all-carbon 4-regular random graphs: every DFS order keeps more than nine ring closures open, so the writer needs the
    two-digit `%nn` closure numbers (and recycles numbers heavily)"""
    import networkx as nx
    r = D.rnd(tag)
    out = []
    for i in range(count):
        while True:
            g = nx.random_regular_graph(4, n_atoms, seed=r.randrange(10 ** 9))
            if nx.is_connected(g):
                break
        nodes = list(g.nodes)
        pos = {v: k for k, v in enumerate(nodes)}
        atoms = [('C', None, 0, False, None) for _ in nodes]
        if i % 2:  # decorate a little: an isotope and a hetero atom pair
            atoms[0] = ('C', 13, 0, False, None)
            atoms[1] = ('Si', None, 0, False, None)
        out.append({'id': f'expander{n_atoms}#{i}', 'atoms': atoms, 'bonds': [(pos[a], pos[b], 1) for a, b in g.edges],
                    'tet': [], 'ct': [], 'al': []})
    return out


# ---- symmetric ring systems (class: ties between same-class atoms of two constitutionally identical rings) ---------------------------

def _arm_patterns(L, r=None, extra=0):
    """decorations of a ring arm of L atoms: list of (name, elements[L], carbonyl positions); every single O / N / S position, every
    adjacent N-N pair, every C=O position, plus `extra` seeded two-substituent patterns"""
    pats = [('c', ['C'] * L, ())]
    for j in range(L):
        for x in ('O', 'N', 'S'):
            e = ['C'] * L
            e[j] = x
            pats.append((f'{x}{j + 1}', e, ()))
        pats.append((f'CO{j + 1}', ['C'] * L, (j,)))
    for j in range(L - 1):
        e = ['C'] * L
        e[j] = e[j + 1] = 'N'
        pats.append((f'NN{j + 1}', e, ()))
    if r is not None and L >= 3:
        for _ in range(extra):
            i, j = sorted(r.sample(range(L), 2))
            e = ['C'] * L
            e[i] = r.choice(('O', 'N', 'S'))
            if j > i + 1 or e[i] == 'N':
                e[j] = r.choice(('O', 'N', 'S')) if j > i + 1 else 'N'
            co = (j,) if e[j] == 'C' else ()
            pats.append((f'x{"".join(e)}{"o%d" % j if co else ""}', e, co))
    return pats


def _assemble(ident, core, arms):
    """core: list of core atom symbols + core bonds; arms: [(from_core, to_core, elements, carbonyls)] -> record"""
    atoms = [(s, None, 0, False, None) for s in core[0]]
    bonds = list(core[1])
    for a, b, els, co in arms:
        prev = a
        first = len(atoms)
        for s in els:
            atoms.append((s, None, 0, False, None))
            bonds.append((prev, len(atoms) - 1, 1))
            prev = len(atoms) - 1
        bonds.append((prev, b, 1))
        for j in co:
            atoms.append(('O', None, 0, False, None))
            bonds.append((first + j, len(atoms) - 1, 2))
    return {'id': ident, 'atoms': atoms, 'bonds': bonds, 'tet': [], 'ct': [], 'al': []}


def symmetric_ring_records(extra=1, tag='symrings'):
    """spiro / fused / bridged bicyclic and dispiro tricyclic systems, ring sizes 3-7, whose two outer rings are constitutionally
    identical and carry the same hetero decoration (O, N, S, N-N, C=O at every position; `extra` seeded two-substituent patterns per
    arm length; for fused and bridged systems in both relative orientations).  No stereo labels, every block has cyclomatic number <= 2:
    outside both documented gaps.  Valence-valid ones only.  Ids are content-derived (identical in every tier / seed for the fixed part)."""
    r = D.rnd(tag)
    out = []

    def emit(rec):
        try:
            m, _ = build_rec(rec)
        except ValueError:
            return
        if not m.check_valence():
            out.append(rec)

    for k in range(3, 8):  # ring size
        # spiro[k-1.k-1]: arm of k-1 atoms from the spiro atom back to it
        for name, els, co in _arm_patterns(k - 1, r, extra):
            emit(_assemble(f'sym:spiro{k}:{name}', (['C'], []), [(0, 0, els, co), (0, 0, els, co)]))
        # fused bicyclo[k-2.k-2.0]
        if k >= 3:
            for name, els, co in _arm_patterns(k - 2, r, extra):
                rco = tuple(k - 3 - j for j in co)
                emit(_assemble(f'sym:fused{k}:{name}:p', (['C', 'C'], [(0, 1, 1)]), [(0, 1, els, co), (0, 1, els, co)]))
                if els != els[::-1] or co != rco:
                    emit(_assemble(f'sym:fused{k}:{name}:a', (['C', 'C'], [(0, 1, 1)]), [(0, 1, els, co), (0, 1, els[::-1], rco)]))
        # dispiro: ring - spiro - middle ring (4 or 6) - spiro - ring
        if k <= 6:
            for mid in (4, 6):
                h = (mid - 2) // 2
                for name, els, co in _arm_patterns(k - 1):
                    emit(_assemble(f'sym:dispiro{k}.{mid}:{name}', (['C', 'C'], []),
                                   [(0, 0, els, co), (1, 1, els, co), (0, 1, ['C'] * h, ()), (0, 1, ['C'] * h, ())]))
    # bridged bicyclo[p.p.q], rings of size p+q+2 <= 7
    for p in range(1, 5):
        for q in (1, 2):
            if p + q + 2 > 7:
                continue
            for name, els, co in _arm_patterns(p, r, extra if p >= 3 else 0):
                rco = tuple(p - 1 - j for j in co)
                core = (['C', 'C'], [])
                emit(_assemble(f'sym:bridged{p}.{p}.{q}:{name}:p', core, [(0, 1, els, co), (0, 1, els, co), (0, 1, ['C'] * q, ())]))
                if els != els[::-1] or co != rco:
                    emit(_assemble(f'sym:bridged{p}.{p}.{q}:{name}:a', core, [(0, 1, els, co), (0, 1, els[::-1], rco), (0, 1, ['C'] * q, ())]))
    return out


# symmetric biaryl / fused aromatic systems (fixed)
BIARYL_SMILES = (
    'c1ccccc1-c1ccccc1', 'c1ccncc1-c1ccncc1', 'n1ccccc1-c1ccccn1', 'c1cnccc1-c1cccnc1', 'c1ccsc1-c1ccsc1', 's1cccc1-c1cccs1', 'o1cccc1-c1ccco1',
    'c1cncnc1-c1cncnc1', 'n1cccnc1-c1ncccn1', 'c1ccn(c1)-n1cccc1', 'c1cc[nH]c1-c1cc[nH]c1', 'C1CCCCC1C1CCCCC1', 'C1CC1C1CC1', 'O1CCCC1C1CCCO1', 'C1COCC1C1COCC1',
    'c1ccc2ccccc2c1', 'c1cnc2cccnc2c1', 'c1ccc2ncccc2n1', 'n1ccc2ccncc2c1', 'c1cc2ccsc2s1', 'c1cc2sccc2s1', 'c1ccc2c(c1)c1ccccc12', 'c1ccc2c(c1)oc1ccccc12',
    'c1ccc2c(c1)[nH]c1ccccc12', 'c1ccc2c(c1)Cc1ccccc12', 'c1ccc(cc1)Cc1ccccc1', 'c1ccc(cc1)Oc1ccccc1', 'c1ccc(cc1)N=Nc1ccccc1', 'c1ccc(cc1)C(=O)c1ccccc1',
    'O=C1CCC(=O)C12C(=O)CCC2=O', 'C1CC2(C1)CC1(C2)CCC1', 'O=C1NC(=O)C12C(=O)NC2=O', 'C12(CNNCC1)CNNCC2', 'C1OCC12COC2', 'C1NCC12CNC2',
)
