"""C06 extension domain (coverage audit): molecules built through the incremental PUBLIC API (no private `_skip_calculation` flags, every
`add_atom` / `add_bond` recalculates the marks on the intermediate graph) and edited afterwards.

A *session* drives one molecule through a list of concrete operations (add / delete atoms and bonds of every order incl. coordinate
bonds, transactions that commit or roll back, `remap`, `copy(keep_sssr, keep_components)`, `union` / `|` / `|=`, `substructure` / `&` / `-`
/ `augmented_substructure` / `split`, `kekule` / `thiele`, `flush_cache(keep_*)`, partial reads of the cached observables) and evaluates the
C06 contracts (the caller's `evaluate`) before and after the edits: inside a transaction everything but the marks (the library defers the
marks to the end of the transaction), outside everything as found.

Every operation is recorded in concrete form (JSON-able), so a witness is replayed by `run_ops`.  Nothing here judges: contracts live in
checks/b06.py.
"""
import traceback

READS = ('sssr', 'atoms_rings', 'atoms_rings_sizes', 'rings_count', 'not_special_connectivity', 'connected_components',
         'connected_components_count', 'skin_graph', 'rings_graph', 'aromatic_rings', 'bonds_count')
ELEMENTS = ('C', 'C', 'C', 'C', 'N', 'O')
MAX_ATOMS = 40
# contracts that compare the stored marks with the ring set reported NOW: after an operation that keeps the old marks but changes what the
# ring search sees (numbers / set order), they legitimately depend on which minimum basis is picked when that choice is not unique
STALE_SENSITIVE = ('atom-marks', 'bond-in_ring-definition')
# operations after which the marks on the atoms are the ones calculated under ANOTHER numbering / another atom set
KEEPS_OLD_MARKS = ('remap', 'union')


# public methods that edit a molecule and decide themselves which ring caches survive (flush_cache(keep_sssr=..., keep_components=...)) or
# recalculate the marks: (method, keyword arguments)
CALLS = (('standardize', {}), ('standardize', {'fix_tautomers': False}), ('canonicalize', {}), ('canonicalize', {'keep_kekule': True}),
         ('neutralize', {}), ('standardize_charges', {}), ('fix_resonance', {}), ('remove_coordinate_bonds', {'keep_to_terminal': True}),
         ('remove_coordinate_bonds', {'keep_to_terminal': False}), ('explicify_hydrogens', {}), ('implicify_hydrogens', {}),
         ('remove_metals', {}), ('split_metal_salts', {}), ('remove_acids', {}), ('clean_isotopes', {}), ('clean_stereo', {}),
         ('kekule', {}), ('thiele', {}), ('thiele', {'fix_tautomers': False}),
         # hydrogens are only defined on Kekule forms: a '+' chain calls the methods in sequence (keywords go to the last one)
         ('kekule+explicify_hydrogens', {}), ('kekule+implicify_hydrogens', {}), ('kekule+explicify_hydrogens+thiele', {}))


class Abort(Exception):
    """the script left the domain of C06 (kekule / thiele refused the edited molecule, an edit raised outside the ring code)"""


class _Rollback(Exception):
    pass


def through_ring_code(exc):
    """did the exception come out of the anchored code (rings.py or MoleculeContainer.calc_labels)?"""
    for fs in traceback.extract_tb(exc.__traceback__):
        if fs.filename.endswith('algorithms/rings.py') or fs.name == 'calc_labels':
            return True
    return False


def mol_public(atoms, bonds, elements=None):
    """public API only: atoms in the given order, every bond as soon as both ends exist; marks are recalculated by the library after
    every call"""
    from chython.containers import MoleculeContainer
    m = MoleculeContainer()
    pending = [tuple(b) for b in bonds]
    have = set()
    for i, n in enumerate(atoms):
        m.add_atom(elements[i] if elements else 'C', n)
        have.add(n)
        rest = []
        for a, b, o in pending:
            if a in have and b in have:
                m.add_bond(a, b, o)
            else:
                rest.append((a, b, o))
        pending = rest
    assert not pending, pending
    return m


def table(m):
    """(atom numbers in dict order, [(a, b, order)]) read from the bond table"""
    return list(m._atoms), [(a, b, int(bd)) for a, b, bd in m.bonds()]


FRAGMENTS = {      # other molecules for union: name -> (number of atoms, bonds on 0-based positions)
    'ring3': (3, [(0, 1, 1), (1, 2, 1), (2, 0, 1)]),
    'ring4+tail': (5, [(0, 1, 1), (1, 2, 1), (2, 3, 1), (3, 0, 1), (0, 4, 1)]),
    'ring6-arom': (6, [(0, 1, 4), (1, 2, 4), (2, 3, 4), (3, 4, 4), (4, 5, 4), (5, 0, 4)]),
    'bicyclo211': (6, [(0, 1, 1), (1, 2, 1), (2, 3, 1), (3, 0, 1), (0, 4, 1), (4, 2, 1), (4, 5, 1)]),
    'ring5-coord': (5, [(0, 1, 1), (1, 2, 1), (2, 3, 1), (3, 4, 1), (4, 0, 8)]),
    'theta223': (5, [(0, 1, 1), (1, 2, 1), (0, 3, 1), (3, 2, 1), (0, 4, 1), (4, 2, 8)]),
    'chain3': (3, [(0, 1, 1), (1, 2, 2)]),
    'atom': (1, []),
    'two-rings': (7, [(0, 1, 1), (1, 2, 1), (2, 0, 1), (3, 4, 1), (4, 5, 1), (5, 6, 1), (6, 3, 1)]),
}


def fragment(name, numbers):
    k, bonds = FRAGMENTS[name]
    assert len(numbers) == k
    return mol_public(list(numbers), [(numbers[a], numbers[b], o) for a, b, o in bonds])


class Session:
    """one molecule under a concrete operation list.  `evaluate(m, marks)` -> [(contract, what, native)]; `judge(session, fails, where)`
    receives every non-empty failure list together with the position in the log"""

    def __init__(self, m, evaluate, judge, r=None):
        self.m = m
        self.evaluate = evaluate
        self.judge = judge
        self.r = r
        self.log = []
        self.in_tx = False
        self.stale = None         # name of the last operation that kept marks calculated under another numbering, else None
        self.parents = []         # (label, molecule) left behind by copy / union / substructure: must stay consistent
        self.evals = 0
        self.ops_done = 0
        self.kinds = set()
        self.allow_aromatize = False
        self.calls = False        # draw standardize-family calls (SMILES starts only)
        self.root = self.log

    # -- observation ---------------------------------------------------------------------------------------------------------------
    def check(self, where=None):
        self.log.append(['eval'])
        self._check(self.m, where or f'after step {len(self.log) - 1}')

    def _check(self, m, where, stale='session'):
        self.evals += 1
        fails = self.evaluate(m, not self.in_tx)
        if fails:
            self.judge(self, m, fails, where, self.stale if stale == 'session' else stale)

    def read(self, names):
        self.log.append(['read', list(names)])
        for n in names:
            try:
                getattr(self.m, n)
            except Exception as e:      # a public observable that raises is a failed contract, not a harness error
                self.judge(self, self.m, [(('sssr' if n == 'sssr' else n) + '-raises', f'{n} raised {type(e).__name__}: {e}', repr(e))],
                           f'partial read at step {len(self.log) - 1}', self.stale)

    # -- application of one concrete operation -----------------------------------------------------------------------------------
    def apply(self, op):
        """apply a concrete op (list); library exceptions from the ring code propagate to the caller, others -> Abort"""
        kind = op[0]
        m = self.m
        self.kinds.add(kind + ('@tx' if self.in_tx else ''))
        try:
            if kind == 'add_atom':
                m.add_atom(op[1], op[2])
            elif kind == 'add_bond':
                m.add_bond(op[1], op[2], op[3])
            elif kind == 'delete_bond':
                m.delete_bond(op[1], op[2])
            elif kind == 'delete_atom':
                m.delete_atom(op[1])
            elif kind == 'remap':
                m.remap({a: b for a, b in op[1]})
            elif kind == 'flush':
                m.flush_cache(keep_sssr=op[1], keep_components=op[2])
            elif kind == 'fix_structure':
                m.fix_structure()
            elif kind == 'copy':
                c = m.copy(keep_sssr=op[1], keep_components=op[2])
                self.parents.append((f'original of copy at step {len(self.log)}', m, self.stale))
                self.m = c
            elif kind == 'union':
                _, name, numbers, remap, copy, how = op
                other = fragment(name, numbers)
                if how == 'or':
                    u = m | other
                elif how == 'ior':
                    u = m
                    u |= other
                else:
                    u = m.union(other, remap=remap, copy=copy)
                if u is not m:
                    self.parents.append((f'left operand of union at step {len(self.log)}', m, self.stale))
                self.parents.append((f'right operand of union at step {len(self.log)}', other, None))
                self.m = u
            elif kind == 'substructure':
                _, atoms, how, arg = op
                if how == 'and':
                    s = m & atoms
                elif how == 'sub':
                    s = m - atoms
                elif how == 'augmented':
                    s = m.augmented_substructure(atoms, deep=arg)
                else:
                    s = m.substructure(atoms, recalculate_hydrogens=arg)
                self.parents.append((f'parent of substructure at step {len(self.log)}', m, self.stale))
                self.m = s
            elif kind == 'split':
                for i, part in enumerate(m.split()):
                    self._check(part, f'part {i} of split at step {len(self.log)}', stale=None)
            elif kind == 'augmented_substructures':
                for i, part in enumerate(m.augmented_substructures(op[1], deep=op[2])):
                    self._check(part, f'shell {i} of augmented_substructures at step {len(self.log)}', stale=None)
            elif kind == 'call':
                try:
                    names = op[1].split('+')
                    for nm in names[:-1]:
                        getattr(m, nm)()
                    getattr(m, names[-1])(**op[2])
                except Exception as e:
                    if through_ring_code(e):
                        raise
                    raise Abort(f'{op[1]} refused the molecule: {type(e).__name__}: {e}')
                self.kinds.add('call:' + op[1])
            elif kind in ('kekule', 'thiele'):
                try:
                    getattr(m, kind)()
                except Exception as e:
                    raise Abort(f'{kind} refused the molecule: {type(e).__name__}: {e}')
            else:
                raise AssertionError(op)
        except Abort:
            raise
        except AssertionError:
            raise
        except Exception as e:
            if through_ring_code(e):
                raise
            raise Abort(f'{kind} raised outside the ring code: {type(e).__name__}: {e}')
        # which marks are on the atoms now?
        if kind in ('add_atom', 'add_bond', 'delete_bond', 'delete_atom', 'fix_structure'):
            if not self.in_tx:
                self.stale = None
        elif kind == 'substructure':
            self.stale = None
        elif kind in KEEPS_OLD_MARKS:
            self.stale = self.stale or kind      # the first operation since the marks were calculated names the family
        self.ops_done += 1

    def step(self, op):
        """log + apply a concrete op; a transaction is ['tx', rollback, inner ops]"""
        if op[0] == 'eval':
            self.check()
        elif op[0] == 'read':
            self.read(op[1])
        elif op[0] == 'tx':
            self.transaction(op[1], inner=op[2])
        else:
            self.log.append(op)
            self.apply(op)

    def transaction(self, rollback, inner=None, n_inner=0):
        """a real `with m:` block; inner ops are replayed (inner given) or generated (n_inner, seeded)"""
        rec = ['tx', bool(rollback), []]
        outer = self.log
        outer.append(rec)
        stale_at_entry = self.stale
        m = self.m
        self.kinds.add('tx-rollback' if rollback else 'tx-commit')
        phase = 'enter'
        try:
            with m:
                phase = 'body'
                self.in_tx = True
                self.log = rec[2]
                if inner is not None:
                    for op in inner:
                        self.step(op)
                else:
                    for _ in range(n_inner):
                        op = gen_op(self)
                        if op is not None:
                            self.step(op)
                        if self.r.random() < .5:
                            self.check(f'inside transaction after {len(self.log)} ops')
                        elif self.r.random() < .4:
                            self.read(self.r.sample(READS, self.r.randint(1, 4)))
                self.in_tx = False      # the exit handlers below run outside "inside transaction"
                self.log = outer
                phase = 'exit'
                if rollback:
                    raise _Rollback()
        except _Rollback:
            self.stale = stale_at_entry
        except (Abort, AssertionError):
            raise
        except Exception as e:
            # body: already classified by apply() / raised by the judge; entering (copy of the molecule) and leaving (recalculation)
            # are library code: ring code -> propagate as a library failure, anything else -> outside C06
            if phase == 'body' or through_ring_code(e):
                raise
            raise Abort(f'transaction {phase} raised outside the ring code: {type(e).__name__}: {e}')
        else:
            self.stale = None       # commit recalculates the marks
        finally:
            self.in_tx = False
            self.log = outer

    def finish(self):
        """final evaluation of the current molecule and of everything left behind (never edited after the split-off)"""
        self.check('end of script')
        for label, p, stale in self.parents:
            self._check(p, label + ' (re-read at the end of the script)', stale=stale)


# -------------------------------------------------------------------------------------------------------------------------------------
# seeded generation of concrete operations from the current state
def _adj(m):
    return {n: set(ms) for n, ms in m._bonds.items()}


def _new_number(s, atoms):
    r = s.r
    mx = max(atoms, default=0)
    x = r.random()
    if x < .5:
        return None                    # let the library number it
    if x < .7:
        return mx + r.randint(2, 9)    # gap
    if x < .8:
        free = [i for i in range(1, mx) if i not in atoms]
        if free:
            return r.choice(free)      # fill a hole: smaller than existing numbers
    return r.choice((999, 1000, 4095, 4096, 10 ** 6)) + r.randint(0, 50) if mx < 900 else None


def gen_op(s):
    """a concrete operation applicable to the current molecule (None if the drawn kind is not applicable)"""
    r, m = s.r, s.m
    atoms = list(m._atoms)
    adj = _adj(m)
    if s.in_tx:
        kind = r.choice(('add_atom', 'add_bond', 'add_bond', 'add_bond', 'delete_bond', 'delete_bond', 'delete_atom', 'remap', 'flush'))
    else:
        kind = r.choice(('add_atom', 'add_bond', 'add_bond', 'add_bond', 'add_bond', 'delete_bond', 'delete_bond', 'delete_bond',
                         'delete_atom', 'delete_atom', 'remap', 'remap', 'copy', 'copy', 'union', 'union', 'substructure', 'split',
                         'flush', 'fix_structure', 'kekule', 'thiele', 'augmented_substructures'))
    if s.calls and not s.in_tx and r.random() < .45:
        if s.stale:      # marks of another numbering on the atoms: a call that recalculates them would blur the family of a failure
            return None
        name, kw = r.choice(CALLS)
        return ['call', name, dict(kw)]
    if kind == 'add_atom':
        if len(atoms) >= MAX_ATOMS:
            return None
        n = _new_number(s, set(atoms))
        return None if n in m._atoms else ['add_atom', r.choice(ELEMENTS), n]
    if kind == 'add_bond':
        if len(atoms) < 2:
            return None
        deg0 = {n: sum(1 for x, b in m._bonds[n].items() if int(b) != 8) for n in atoms}
        for _ in range(12):
            a = r.choice(atoms)
            if r.random() < .65:        # a partner 2-7 bonds away: rings of drug-like size
                front, seen = {a}, {a}
                shells = []
                for _d in range(7):
                    front = {y for x in front for y in adj[x]} - seen
                    if not front:
                        break
                    seen |= front
                    shells.append(front)
                cand = [y for sh in shells[1:] for y in sh]
            else:                       # anywhere: macrocycles, other components
                cand = [y for y in atoms if y != a and y not in adj[a]]
            cand = [y for y in cand if y not in adj[a]]
            if not cand:
                continue
            b = r.choice(sorted(cand))
            o = r.choice((1, 1, 1, 1, 2, 8, 8, 8, 4))
            if o != 8 and (deg0[a] >= 4 or deg0[b] >= 4):
                continue
            if len(adj[a]) >= 6 or len(adj[b]) >= 6:
                continue
            return ['add_bond', a, b, o] if r.random() < .5 else ['add_bond', b, a, o]
        return None
    if kind == 'delete_bond':
        bonds = [(a, b, int(bd)) for a, b, bd in m.bonds()]
        if not bonds:
            return None
        co = [x for x in bonds if x[2] == 8]
        a, b, _ = r.choice(co) if co and r.random() < .35 else r.choice(bonds)
        return ['delete_bond', a, b] if r.random() < .5 else ['delete_bond', b, a]
    if kind == 'delete_atom':
        if not atoms:
            return None
        if len(atoms) > 3 and r.random() < .6:      # prefer atoms that matter for rings
            cand = [n for n in atoms if len(adj[n]) >= 2] or atoms
        else:
            cand = atoms
        return ['delete_atom', r.choice(cand)]
    if kind == 'remap':
        if not atoms:
            return None
        x = r.random()
        if x < .4:          # permutation of the existing numbers
            tgt = atoms[:]
            r.shuffle(tgt)
            mp = list(zip(atoms, tgt))
        elif x < .7:        # shift everything (descending order of numbers relative to dict order when negative stride)
            off = r.choice((max(atoms) + 1, max(atoms) + 500, 5000))
            stride = r.choice((1, 3))
            tgt = [off + i * stride for i in range(len(atoms))]
            if r.random() < .5:
                tgt.reverse()
            mp = list(zip(atoms, tgt))
        else:               # partial: a few atoms to fresh numbers
            k = r.randint(1, max(1, len(atoms) // 2))
            src = r.sample(atoms, k)
            base = max(atoms) + r.randint(1, 40)
            mp = [(a, base + i) for i, a in enumerate(src)]
        return ['remap', [list(p) for p in mp]]
    if kind == 'copy':
        return ['copy', r.random() < .5, r.random() < .5]
    if kind == 'union':
        name = r.choice(sorted(FRAGMENTS))
        k = FRAGMENTS[name][0]
        if len(atoms) + k > MAX_ATOMS:
            return None
        how = r.choice(('union', 'union', 'or', 'ior'))
        overlap = bool(atoms) and r.random() < .5
        if overlap:
            lo = min(atoms)
            numbers = list(range(lo, lo + k))
        else:
            base = max(atoms, default=0) + r.choice((1, 1, 5, 300))
            numbers = list(range(base, base + k))
        if r.random() < .3:
            numbers.reverse()
        if how == 'union':
            remap = True if set(numbers) & set(atoms) else r.random() < .5
            return ['union', name, numbers, remap, r.random() < .5, how]
        return ['union', name, numbers, True, how == 'or', how]
    if kind == 'substructure':
        if len(atoms) < 2:
            return None
        how = r.choice(('substructure', 'substructure', 'and', 'sub', 'augmented'))
        if how == 'augmented':
            return ['substructure', [r.choice(atoms)], how, r.randint(1, 4)]
        if r.random() < .6:      # a connected ball
            a = r.choice(atoms)
            sel, front = {a}, {a}
            for _ in range(r.randint(1, 5)):
                front = {y for x in front for y in adj[x]} - sel
                sel |= front
            sel = sorted(sel)
        else:
            sel = sorted(r.sample(atoms, r.randint(1, len(atoms) - 1)))
        if how == 'sub':
            if len(sel) == len(atoms):
                return None
            return ['substructure', sel, how, None]
        r.shuffle(sel)
        return ['substructure', sel, how, (r.random() < .5) if how == 'substructure' else None]
    if kind == 'augmented_substructures':
        if not atoms:
            return None
        return ['augmented_substructures', [r.choice(atoms)], r.randint(1, 3)]
    if kind == 'flush':
        return ['flush', r.random() < .7, r.random() < .7]
    if kind in ('split', 'fix_structure'):
        return [kind]
    if kind in ('kekule', 'thiele'):
        return [kind] if s.allow_aromatize else None
    raise AssertionError(kind)


def random_script(s, n_ops):
    """seeded script on session s: read (fully or partially) -> op -> read ..., some ops inside transactions; ends with finish()"""
    r = s.r
    s.check('start')
    done = 0
    guard = 0
    while done < n_ops and guard < 6 * n_ops:
        guard += 1
        if r.random() < .18:
            s.transaction(rollback=r.random() < .45, n_inner=r.randint(1, 4))
            done += 1
        else:
            op = gen_op(s)
            if op is None:
                continue
            s.step(op)
            done += 1
        x = r.random()
        if x < .7:
            s.check()
        elif x < .85:
            s.read(r.sample(READS, r.randint(1, 4)))
    s.finish()


def run_ops(s, ops):
    """replay of a concrete log"""
    for op in ops:
        s.step(op)
    s.finish()


# -------------------------------------------------------------------------------------------------------------------------------------
# exhaustive single edits of a small base molecule
def single_edits(atoms, bonds):
    """every single edit of a small molecule: delete each bond / each atom, add a bond (orders 1 and 8) between every non-bonded pair,
    add an atom; each as a concrete op"""
    bonded = {frozenset((a, b)) for a, b, _ in bonds}
    deg0 = {n: 0 for n in atoms}
    for a, b, o in bonds:
        if o != 8:
            deg0[a] += 1
            deg0[b] += 1
    ops = [['delete_bond', a, b] for a, b, _ in bonds]
    ops += [['delete_atom', n] for n in atoms]
    for i, a in enumerate(atoms):
        for b in atoms[i + 1:]:
            if frozenset((a, b)) in bonded:
                continue
            ops.append(['add_bond', b, a, 8])
            if deg0[a] < 4 and deg0[b] < 4:
                ops.append(['add_bond', a, b, 1])
    ops.append(['add_atom', 'N', None])
    return ops
