"""C16 domain extension (coverage audit): templates, inputs and documented examples for the options / patcher branches / input classes the
first version of checks/b16.py never reached.  Data only; the contracts live in checks/b16.py.

What the audit found unexercised (coverage of chython/reactor/* under the old check + reading of the check):
  * replacement given as MoleculeContainer (Element atoms: H count of new atoms taken from the patch)            base.py `isinstance(ra, Element)`
  * radical state / isotope requested by the replacement, isotope-labelled, radical, explicit-H, single-atom inputs
  * stereo label on a NEW replacement atom, on an existing atom rebuilt from an element, on a replacement BOND     base.py `rb.stereo`
  * stereo double bond both ends of which are named (label carried through the replacement bond), order change of such a bond
  * allene / cumulene labels in the untouched remainder (patched, but the old post-condition only judged tetrahedra and plain alkenes)
  * bond between two existing atoms created / removed / raised to triple by the replacement, ring closure
  * delete_atoms=False on a non-identity template (Transformer and Reactor)
  * public keywords never passed: fix_aromatic_rings=False, fix_tautomers=False, copy_metadata, Reactor automorphism_filter (synthetic
    reactors always True, prepared always False), polymerise_limit=1 (boundary), MoleculeContainer products, three reactants
  * Transformer inputs whose atom numbers are not 1..N in order (descending, gaps, > 999)
  * input molecule / earlier yielded products mutated by the patcher (the frame was judged against the post-call input)
  * deprotection.apply_all, the rows' shipped examples/decoys, PreparedReactor(one_shot=False, check_alerts=False, excess=...)
"""

# ------------------------------------------------------------------------------------------------ Transformer templates (same format as T_SYN)
# 'rmol': replacement is smiles(rmol) (MoleculeContainer; atom map numbers are the atom numbers)
T_EXTRA = [
    dict(name='mol-repl', p='[C;z1:1]-[Cl,Br:2]', rmol='[CH3:1][OH:3]', branch='replacement is a molecule, new atom with H count from the patch'),
    dict(name='mol-repl-anion', p='[C;z1:1]-[Cl,Br:2]', rmol='[CH3:1][O-:3]', branch='replacement is a molecule, charged new atom, H0 from the patch'),
    dict(name='radical-new', p='[C;z1:1]-[Cl,Br,I:2]', r='[A:1]-[O:3] |^1:1|', branch='radical new atom'),
    dict(name='radical-existing', p='[C;z1:1]-[Cl,Br,I:2]', r='[A:1] |^1:0|', branch='radical state from the replacement on a matched atom'),
    dict(name='radical-quench', p='[C:1]-[C:2] |^1:0|', r='[A:1]-[A:2]', branch='radical state cleared by the replacement'),
    dict(name='isotope-new', p='[C;z1:1]-[Cl,Br,I:2]', r='[A:1]-[18O:3]', branch='isotope of a new atom'),
    dict(name='isotope-elem', p='[C;z1:1]-[O;D1:2]', r='[13C:1]-[A:2]', branch='isotope of an existing atom rebuilt from element'),
    dict(name='ident-double', p='[C:1]=[C:2]', r='[A:1]=[A:2]', identity=True, branch='stereo double bond named by the replacement'),
    dict(name='hydrogenate', p='[C;z2:1]=[C;z2:2]', r='[A:1]-[A:2]', branch='order change of a (stereo) double bond'),
    dict(name='bond-stereo-trans', p='[C;z2:1](-[C;M])=[C;z2:2]-[C;M]', r='[A:1]=[A:2]', identity=True, branch='double bond with masked substituents'),
    dict(name='bond-stereo-set', p='[C:1]-[C;z2:2]=[C;z2:3]-[C:4]', r='[A:1]/[A:2]=[A:3]/[A:4]', branch='stereo label on a replacement bond'),
    dict(name='bond-stereo-set2', p='[C:1]-[C;z2:2]=[C;z2:3]-[C:4]', r='[A:1]/[A:2]=[A:3]\\[A:4]', branch='stereo label on a replacement bond'),
    dict(name='new-stereo-atom', p='[C;D1;h3:1]', r='[A:1]-[C;@:2](-[F:3])-[O:4]', branch='stereo label on a new atom'),
    dict(name='new-stereo-atom2', p='[C;D1;h3:1]', r='[A:1]-[C;@@:2](-[F:3])(-[Cl:5])-[O:4]', branch='stereo label on a new atom'),
    dict(name='elem-stereo', p='[A;M][C;h1;z1:1]([A;M])[A;M]', r='[C;@:1]', branch='stereo label on an existing atom rebuilt from element'),
    dict(name='break-bond', p='[C;z1:1]-[O;D2:2]-[C;z1:3]', r='[A:1].[A:2]-[A:3]', branch='bond between two remaining atoms removed'),
    dict(name='ring-close', p='[N;D1;z1:1]-[C;z1:2]-[C;z1;h1,h2,h3:3]', r='[A:1]1-[A:2]-[A:3]-1', branch='new bond between two existing atoms'),
    dict(name='to-triple', p='[C;D1;h3:1]-[C;D2;h2:2]', r='[A:1]#[A:2]', branch='triple bond from the replacement'),
    dict(name='nodelete-add', p='[C;z1;h2,h3:1]-[Cl,Br:2]', r='[A:1]-[O:3]', kw={'delete_atoms': False}, branch='delete_atoms=False, new atom'),
    dict(name='del-two', p='[C:1]-[C;z1:2]-[Cl,Br:3]', r='[A:1]', branch='two adjacent deleted atoms'),
    dict(name='noringfix', p='[C;a:1]-[Cl,Br:2]', r='[A:1]-[O:3]', kw={'fix_aromatic_rings': False}, branch='fix_aromatic_rings=False'),
    dict(name='notautomers', p='[C:1]-[Cl,Br:2]', r='[A:1]-[O:3]', kw={'fix_tautomers': False}, branch='fix_tautomers=False'),
    dict(name='metadata', p='[C:1]-[Cl,Br:2]', r='[A:1]-[O:3]', kw={'copy_metadata': True}, branch='copy_metadata=True'),
]

# ------------------------------------------------------------------------------------------------ further fixed inputs (input classes)
FIXED_EXTRA = [
    '[13CH3]Br', '[13CH3][13CH2]O', 'OC([2H])([2H])CCl', '[H]C([H])(Cl)C', '[2H]C(Cl)C', '[H][C@](C)(O)CCl',          # isotopes, explicit H
    '[CH2]CCBr |^1:0|', 'C[CH]CO |^1:1|', 'CC[O] |^1:2|',                                                               # radicals
    'C[N+](C)(C)CCBr.[Br-]', '[O-]C(=O)CCN', 'C[NH3+]', 'CC(=O)[O-].[NH4+]', '[O-][N+](=O)CCCl',                        # charged / salts
    'C', 'O', 'N', 'CCl', 'CBr', '[Cl-]', 'CC',                                                                          # single atoms / smallest
    'CC=[C@]=CCBr', 'CC=[C@@]=CC(C)O', 'C[C@H](O)C=[C@]=CC', 'C/C=C=C=C/CBr', 'C/C=C=C=C\\CO',                           # allenes, cumulenes
    'C/C=C/C', 'C/C=C\\C', 'CC=CC', 'C/C=C/C=C/C', 'C/C(F)=C(/C)Cl', 'C/C=C/[C@H](C)O', 'OC/C=C\\CCl', 'C/C=C(/C)CBr',  # alkenes
    'NCC', 'NC[C@H](C)O', 'COC', 'CCOCC', 'CO[C@H](C)CC', 'C1COCCN1', 'CCC', 'CC#C', 'CCC#N',
    'Brc1ccccn1', 'Clc1ncccc1O', 'BrCc1c[nH]c2ccncc12', 'Clc1ccc2[nH]ccc2c1', 'OC(=O)c1ccc(Br)cc1',                      # aromatic, tautomers
    'ClCC(Cl)CCl', 'ClC1CC1Br', 'BrC12CC1C2',                                                                             # several / ring halides
]
# inputs that are NOT normalised (smiles() only, no kekule/thiele): a Kekule pyrrolo-pyridine tautomer that thiele(fix_tautomers=True) rewrites
RAW_INPUTS = ['N1C=CC2=NC=C(CBr)C2=C1', 'N1C=CC2=NC=C(CCl)C2=C1', 'BrCC1=CNC2=CC=NC=C12']

# ------------------------------------------------------------------------------------------------ documented / hand-derived examples
# (pattern, replacement ('mol:' prefix = smiles), keywords, input, expected products as SMILES).  The expected strings are derived from
# the property statement by hand (requested element / isotope / charge / radical / order / configuration), not from the code.
GOLDEN = [
    ('[C;z1:1]-[Cl,Br:2]', 'mol:[CH3:1][OH:3]', {}, 'CCBr', ['CCO']),
    ('[C;z1:1]-[Cl,Br:2]', 'mol:[CH3:1][OH:3]', {}, 'CC(C)Br', ['CC(C)O']),
    ('[C;z1:1]-[Cl,Br:2]', 'mol:[CH3:1][O-:3]', {}, 'CCBr', ['CC[O-]']),
    ('[C;z1:1]-[Cl,Br:2]', 'mol:[CH3:1][OH2+:3]', {}, 'CCBr', ['CC[OH2+]']),
    ('[C;z1:1]-[Cl,Br:2]', '[A:1]-[O:3] |^1:1|', {}, 'CCBr', ['CC[O] |^1:2|']),
    ('[C;z1:1]-[Cl,Br:2]', '[A:1] |^1:0|', {}, 'CCBr', ['C[CH2] |^1:1|']),
    ('[C:1]-[C:2] |^1:0|', '[A:1]-[A:2]', {}, '[CH2]C |^1:0|', ['CC']),
    ('[C:1]-[C:2]', '[A:1]-[A:2]', {}, '[CH2]C |^1:0|', []),
    ('[C;z1:1]-[Cl,Br:2]', '[A:1]-[18O:3]', {}, 'CCBr', ['CC[18OH]']),
    ('[C;z1:1]-[Cl,Br:2]', '[13C:1]-[O:3]', {}, 'CCBr', ['C[13CH2]O']),
    ('[C;z1:1]-[Cl,Br:2]', '[C:1]-[O:3]', {}, '[13CH3]Br', ['CO']),
    ('[C;z1:1]-[Cl,Br:2]', '[A:1]-[O:3]', {}, '[13CH3]Br', ['[13CH3]O']),
    ('[C;z1:1]-[Cl,Br:2]', '[A;+:1]', {}, 'CCBr', ['C[CH2+]']),
    ('[C;z1:1]-[Cl,Br:2]', '[A;-:1]', {}, 'CCBr', ['C[CH2-]']),
    ('[C;z1:1]-[Cl,Br:2]', '[A:1]-[N;+:3](=[O:4])-[O;-:5]', {}, 'CCBr', ['CC[N+](=O)[O-]']),
    ('[C:1]-[C;z2:2]=[C;z2:3]-[C:4]', '[A:1]/[A:2]=[A:3]/[A:4]', {}, 'CC=CC', ['C/C=C/C']),
    ('[C:1]-[C;z2:2]=[C;z2:3]-[C:4]', '[A:1]/[A:2]=[A:3]\\[A:4]', {}, 'CC=CC', ['C/C=C\\C']),
    ('[C:1]-[C;z2:2]=[C;z2:3]-[C:4]', '[A:1]/[A:2]=[A:3]/[A:4]', {}, 'C/C=C\\C', ['C/C=C/C']),
    ('[C:1]-[C;z2:2]=[C;z2:3]-[C:4]', '[A:1]/[A:2]=[A:3]\\[A:4]', {}, 'C/C=C/C', ['C/C=C\\C']),
    ('[C:1]-[C;z2:2]=[C;z2:3]-[C:4]', '[A:1]/[A:2]=[A:3]/[A:4]', {}, 'OCC=CCCl', ['OC/C=C/CCl']),
    ('[O:1]-[C:5]-[C;z2:2]=[C;z2:3]-[C:4]', '[A:1]-[A:5]/[A:2]=[A:3]\\[A:4]', {}, 'OCC=CCCl', ['OC/C=C\\CCl']),
    ('[C:1]-[C:2]=[C:3]-[C:4]', '[A:1]-[A:2]=[A:3]-[A:4]', {}, 'C/C=C/C', ['C/C=C/C']),
    ('[C:1]=[C:2]', '[A:1]=[A:2]', {}, 'C/C=C\\C', ['C/C=C\\C']),
    ('[C:1]=[C:2]', '[A:1]-[A:2]', {}, 'C/C=C\\C', ['CCCC']),
    ('[C;D1:1]-[Br:2]', '[A:1]-[C;@:3](-[F:4])(-[Cl:5])-[O:6]', {}, 'CBr', ['C[C@](F)(Cl)O']),
    ('[C;D1:1]-[Br:2]', '[A:1]-[C;@@:3](-[F:4])(-[Cl:5])-[O:6]', {}, 'CBr', ['C[C@@](F)(Cl)O']),
    ('[C;D1:1]-[Br:2]', '[A:1]-[C;@:3](-[F:4])-[O:6]', {}, 'CBr', ['C[C@H](F)O']),
    ('[C:1](-[C:5])(-[F:2])(-[Cl:3])-[Br:4]', '[C;@:1](-[C:5])(-[F:2])(-[Cl:3])-[O:4]', {}, 'CC(F)(Cl)Br', ['[C@](C)(F)(Cl)O']),
    ('[C:1](-[C:5])(-[F:2])(-[Cl:3])-[Br:4]', '[C;@@:1](-[C:5])(-[F:2])(-[Cl:3])-[O:4]', {}, 'FC(C)(Cl)Br', ['[C@@](C)(F)(Cl)O']),
    ('[C:1](-[C:5])(-[F:2])(-[Cl:3])-[Br:4]', '[A;@:1](-[A:5])(-[A:2])(-[A:3])-[O:4]', {}, 'Br[C@@](F)(Cl)C', ['[C@](C)(F)(Cl)O']),
    ('[C:1]-[O:2]-[C:3]', '[A:1].[A:2]-[A:3]', {'automorphism_filter': False}, 'COCC', ['C.OCC', 'CO.CC']),
    ('[N;D1;z1:1]-[C;z1:2]-[C;z1:3]', '[A:1]1-[A:2]-[A:3]-1', {}, 'NCC', ['C1CN1']),
    ('[C;D1:1]-[C;D1:2]', '[A:1]#[A:2]', {}, 'CC', ['C#C']),
    ('[C;D1:1]-[C;D1:2]', '[A:1]=[A:2]', {}, 'CC', ['C=C']),
    ('[C;z1:1]-[Br:2]', '[A:1]-[O:3]', {'delete_atoms': False}, 'CCBr', ['CC(O)Br']),
    ('[C;z1:1]-[Br:2]', '[A:1]', {'delete_atoms': False}, 'CCBr', ['CCBr']),
    ('[C;M]-[O:1]-[C:2]', '[A:1]', {}, 'COC', ['CO']),
    ('[C;M]-[O:1]-[C:2]', '[A:1]', {'automorphism_filter': False}, 'COC', ['CO', 'CO']),
    ('[C:1]-[C:2]', '[A:1]-[A:2]-[F:3]', {}, 'CC', ['CCF']),
    ('[C:1]-[C:2]', '[A:1]-[A:2]-[F:3]', {'automorphism_filter': False}, 'CC', ['CCF', 'CCF']),
    ('[C:1]-[O:2]', '[A:1]', {}, 'CCOCC(C)C', ['CC', 'CC(C)C']),
    ('[C:1]-[C:2]-[C:3]', '[A:1]', {}, 'CC(C)C', ['C'] * 3),
    ('[C:1]-[C:2]-[C:3]', '[A:1]', {'automorphism_filter': False}, 'CC(C)C', ['C'] * 6),
    ('[C:1]Br', '[A:1]-[O:3]', {'fix_tautomers': False}, 'raw:N1C=CC2=NC=C(CBr)C2=C1', ['raw:OCc1cnc2cc[nH]cc12']),
    ('[C:1]Br', '[A:1]-[O:3]', {'fix_aromatic_rings': False}, 'raw:N1C=CC2=NC=C(CBr)C2=C1', ['raw:N1C=CC2=NC=C(CO)C2=C1']),
    ('[C:1]Br', '[A:1]-[O:3]', {}, 'raw:N1C=CC2=NC=C(CBr)C2=C1', ['OCc1c[nH]c2ccncc12']),
]

# the repository's own (not runnable here) reactor/test examples, compared exactly as the tests do (format 'h', smiles() without normalisation)
SHIPPED_T = [
    ('[C:1]Br', '[A:1][O;M]', 'C[C@H](OC)CBr', ['C[C@H](OC)CO']),
    ('[C:2][C:1]Br', '[A:2][A:1][O;M]', 'C[C@H](OC)CBr', ['C[C@H](OC)CO']),
    ('[C;M][C;@;h1:1]([O;M])[N;M]', '[A;@@:1]', 'CC[C@H](O)N', ['CC[C@@H](O)N']),
    ('[C:1]Br', '[A:1][O;M]', 'C/C=C/CBr', ['C/C=C/CO']),
    ('[C:1]Br', '[A:1][O;M]', 'CC=[C@]=CCBr', ['CC=[C@]=CCO']),
    ('[C:1]Br', '[A:1][O;M]', 'CC=[C@]=CBr', ['CC=C=CO']),
    ('[C:1]Br', '[A:1][O;M]', 'C/C=C/Br', ['CC=CO']),
]
SHIPPED_R = [
    (('[B;D3;x2;z1:4]([O:5])([O:6])-[C;@@;h1:3]1([O;M][C;M]1)', '[Cl,Br,I;D1:1]-[C;a:2]'), ('[A;@:3]-[A:2]',),
     ('CC1O[C@@H]1B(O)O', 'Brc1ccccc1'), ('CC1O[C@H]1c1ccccc1',)),
    (('[B;D3;x2;z1:4]([O:5])([O:6])-[C;@@;h1:3]1([O;M][C;M]1)', '[Cl,Br,I;D1:1]-[C;a:2]'), ('[A;@@:3]-[A:2]',),
     ('CC1O[C@@H]1B(O)O', 'Brc1ccccc1'), ('CC1O[C@@H]1c1ccccc1',)),
    (('[B;D3;x2;z1:4]([O:5])([O:6])-[C;@@;h1:3]1([O;M][C;M]1)', '[Cl,Br,I;D1:1]-[C;a:2]'), ('[A:3]-[A:2]',),
     ('CC1O[C@@H]1B(O)O', 'Brc1ccccc1'), ('CC1OC1c1ccccc1',)),
]

# ------------------------------------------------------------------------------------------------ Reactor templates (same format as R_SYN)
# 'rmols': products given as molecules
R_EXTRA = [
    dict(name='amide-af0', ps=('[C:1](=[O:2])-[O;D1:3]', '[N;D1;z1:4]-[C:5]'), rs=('[A:1](=[A:2])-[A:4]-[A:5]',),
         kw={'automorphism_filter': False}, branch='automorphism_filter=False'),
    dict(name='amide-molprod', ps=('[C:1](=[O:2])-[O;D1:3]', '[N;D1;z1:4]-[C:5]'), rmols=('[CH:1](=[O:2])[NH:4][CH3:5]',),
         branch='products given as molecules'),
    dict(name='amination-nodelete', ps=('[C;z1;h2,h3:1]-[Cl,Br:2]', '[N;D1;z1:3]-[C:4]'), rs=('[A:1]-[A:3]-[A:4]',),
         kw={'delete_atoms': False}, branch='delete_atoms=False, two reactants'),
    dict(name='three', ps=('[C;z1:1]-[O;D1:2]', '[N;D1;z1:3]-[C:4]', '[C;z1:5]-[Cl,Br:6]'), rs=('[A:1]-[A:3](-[A:4])-[A:5]',),
         branch='three reactants'),
    dict(name='hydroxylation-noringfix', ps=('[Cl,Br,I;D1:1]-[C;a:2]',), rs=('[A:2]-[O:3]',), kw={'fix_aromatic_rings': False},
         branch='Reactor fix_aromatic_rings=False'),
    dict(name='hydroxylation-notautomers', ps=('[Cl,Br,I;D1:1]-[C;a:2]',), rs=('[A:2]-[O:3]',), kw={'fix_tautomers': False},
         branch='Reactor fix_tautomers=False'),
    dict(name='ether-new-atoms', ps=('[C;z1:1]-[O;D1:2]', '[C;z1:3]-[Cl,Br:4]'), rs=('[A:1]-[A:2]-[A:3]', '[A:4]-[Na:5]'),
         branch='two products, new atom next to a spectator'),
]

# Reactor: (patterns, products ('mol:' prefix = smiles), keywords, reactants, expected reactions as lists of product SMILES)
GOLDEN_R = [
    (('[C:1]Br',), ('[A:1]-[O:3]',), {'fix_tautomers': False}, ['raw:N1C=CC2=NC=C(CBr)C2=C1'], [['raw:OCc1cnc2cc[nH]cc12']]),
    (('[C:1]Br',), ('[A:1]-[O:3]',), {}, ['raw:N1C=CC2=NC=C(CBr)C2=C1'], [['OCc1c[nH]c2ccncc12']]),
    (('[C:1]Br',), ('[A:1]-[O:3]',), {'fix_aromatic_rings': False}, ['raw:N1C=CC2=NC=C(CBr)C2=C1'], [['raw:N1C=CC2=NC=C(CO)C2=C1']]),
    (('[C;z1:1]-[Br:2]', '[N;D1:3]-[C:4]'), ('[A:1]-[A:3]-[A:4]',), {'delete_atoms': False}, ['CCBr', 'NC'], [['CC(Br)NC']]),
    (('[C;z1:1]-[Br:2]', '[N;D1:3]-[C:4]'), ('[A:1]-[A:3]-[A:4]',), {}, ['CCBr', 'NC'], [['CCNC']]),
    (('[C:1](=[O:2])-[O;D1:3]', '[N;D1;z1:4]-[C:5]'), ('mol:[CH:1](=[O:2])[NH:4][CH3:5]',), {}, ['CC(=O)O', 'NC'], [['CC(=O)NC']]),
    (('[C;z1:1]-[O;D1:2]', '[C;z1:3]-[Cl,Br:4]'), ('[A:1]-[A:2]-[A:3]', '[A:4]'), {}, ['CO', 'CCBr', 'c1ccccc1'], [['COCC', 'Br', 'c1ccccc1']]),
    (('[C:1]-[C:2]',), ('[A:1]-[A:2]-[F:3]',), {'automorphism_filter': False}, ['CC'], [['CCF']]),
    (('[C:1]-[C:2]',), ('[A:1]-[A:2]-[F:3]',), {}, ['CC'], [['CCF']]),
    (('[C;z1:1]-[Cl:2]',), ('[A:1]-[O:3]',), {'one_shot': False}, ['ClCCCl'], [['OCCCl'], ['OCCO']]),
    (('[C;z1:1]-[Cl:2]',), ('[A:1]-[O:3]',), {'one_shot': False, 'polymerise_limit': 1}, ['ClCCCl'], [['OCCCl']]),
    (('[C;z1:1]-[Cl:2]',), ('[A:1]-[O:3]',), {}, ['ClCCCl'], [['OCCCl']]),
    (('[C;z1:1]-[O;D1:2]', '[N;D1;z1:3]-[C:4]', '[C;z1:5]-[Cl,Br:6]'), ('[A:1]-[A:3](-[A:4])-[A:5]',), {}, ['CO', 'NC', 'CCBr'], [['CN(C)CC']]),
    (('[C;z1:1]-[O;D1:2]', '[N;D1;z1:3]-[C:4]', '[C;z1:5]-[Cl,Br:6]'), ('[A:1]-[A:3](-[A:4])-[A:5]',), {}, ['CCBr', 'CO', 'NC'], [['CN(C)CC']]),
]
