"""C19 extra bounded domains (engine B), added by the coverage audit of checks/b19.py.  Contracts are those of the property statement:
the observables (oracles/o19_obs) of the same input are identical (1) across interpreter processes / hash seeds, (2) between a first
(cold caches) and a later (warm caches) evaluation, (3) between an object and its copies.  New here is the DOMAIN:

part M  molecules of special input classes (unknown hydrogen counts, radicals, isotopes, charges +-4, coordinate bonds, stereo of every
        kind, several components, explicit hydrogens, metals) and corpus molecules, each under numbering variants (as parsed; atom
        numbers that all collide modulo 8 / 16 / 32 in small-int sets; descending with gaps; near and beyond the pack limit 4095;
        shuffled insertion order), and for every IN-PLACE operation `op` of OPS:
          warm  = build; evaluate every observable (all caches warm); op; evaluate every observable
          cold  = build again independently; op with cold caches; evaluate every observable in reverse order
          copy  = warm.copy(keep_sssr=?, keep_components=?) made after the operation (every flag combination, rotating)
          fresh = fresh parse of the canonical string of `warm` (number-free observables only; outside the recorded C01 gaps; the
                string-valued ones only where no atom has two equivalent neighbours across bonds of different order)
        `noop` is the plain first / cached / copy comparison with two of the four keep_* combinations (rotating over the items),
        copy.copy or a copy of a copy made before caching, a rebuild
        evaluated in reverse order and every observable alone on its own pristine copy.
part R  reactions (reagents or none, several components, radicals, stereo, unbalanced and colliding atom maps, duplicates, ions) with
        their CGR, the same scheme with the in-place operations of ReactionContainer.
part Q  query containers: match lists on fixed targets, original vs copy vs a second parse.

Every record also carries the digests of `warm` for the comparison across processes (done by checks/b19.py).
"""
import copy as _copy
import hashlib
import random

from vlib import env

# ---------------------------------------------------------------------------------------------------------------------------
# molecules
# ---------------------------------------------------------------------------------------------------------------------------
SPECIAL = [
    # unknown hydrogen counts (aromatic heteroatoms straight after parsing; valence errors)
    ('c1ccncc1', ('kekule', 'thiele', 'kekule+thiele', 'canonicalize')), ('c1cc[nH]c1', ('kekule', 'canonicalize:keep_kekule')),
    ('c1ccc2[nH]ccc2c1', ('kekule+thiele', 'explicify+implicify')), ('Cc1ccnn1', ('kekule', 'kekule+thiele')), ('c1ccc2c(c1)nnn2', ('kekule',)),
    ('CN(C)(C)(C)C', ('neutralize', 'delete_bond:first')), ('C[B-](C)(C)(C)C', ('standardize',)), ('O=[n+]1onc(C)c1C', ('kekule', 'canonicalize')),
    ('c1cc[se]c1', ('kekule+thiele',)), ('Oc1ccccn1', ('thiele', 'thiele:no-taut', 'canonicalize:no-taut,log')), ('O=c1cccc[nH]1', ('kekule+thiele',)),
    # radicals
    ('[CH3]', ('add_atom+bond',)), ('C[CH]C', ('explicify_hydrogens', 'delete_atom:last')), ('[O]', ('add_atom+bond',)), ('C[N]C |^1:1|', ('neutralize',)),
    ('[CH2]C=C[CH2]', ('fix_resonance:log', 'standardize')), ('C[C]1=CC=CC=C1 |^1:1|', ('thiele',)), ('[O]N(C)C', ('standardize',)),
    # isotopes
    ('[13CH4]', ('clean_isotopes',)), ('[2H]O[2H]', ('clean_isotopes', 'kekule+implicify_hydrogens')), ('[18O]=C=[18O]', ('clean_isotopes',)),
    ('C[14CH2]N', ('clean_isotopes', 'explicify_hydrogens')), ('[2H]C([2H])([2H])[C@H](F)Cl', ('clean_isotopes', 'clean_stereo')),
    ('C[C@H]([13CH3])O', ('clean_isotopes',)), ('[3H]c1ccccc1', ('kekule+implicify_hydrogens', 'clean_isotopes')),
    # charges up to +-4
    ('[Ti+4]', ('neutralize',)), ('[C-4]', ('neutralize',)), ('[Pb+4].[O-2].[O-2]', ('neutralize', 'split_metal_salts')), ('[Zr+4].[Cl-].[Cl-].[Cl-].[Cl-]', ('remove_metals',)),
    ('[Si-4]', ('standardize',)), ('C[N+](C)(C)C.[OH-]', ('neutralize', 'neutralize:no-keep,log')), ('[NH3+]CC([O-])=O', ('neutralize', 'standardize_charges')),
    ('C[NH2+]CC[NH3+].[Cl-]', ('neutralize:no-keep,log', 'remove_acids')), ('Cc1[nH]cc[nH+]1', ('standardize_charges', 'standardize_charges:log,no-prepare')),
    ('c1cc2cc[nH]c2[nH+]c1', ('standardize_charges', 'canonicalize')), ('[Fe+2].c1cc[cH-]c1.Cc1ccc[cH-]1', ('standardize_charges', 'canonicalize')),
    # coordinate bonds, metals
    ('CN~[Cu]', ('remove_coordinate_bonds', 'remove_metals')), ('C[NH2]~[Cu]~[NH2]C', ('remove_coordinate_bonds', 'remove_coordinate_bonds:all')),
    ('O=C1O~[Cu]~OC(=O)C1', ('remove_coordinate_bonds', 'delete_bond:ring')), ('CC(=O)O[Na]', ('split_metal_salts', 'remove_metals')),
    ('[Li]CCCC', ('split_metal_salts',)), ('CCO[Mg]OCC', ('split_metal_salts', 'split_metal_salts:log')), ('O=C[Cu]', ('standardize',)),
    # stereo of every kind
    ('C[C@H](N)C(O)=O', ('clean_stereo', 'explicify_hydrogens')), ('[H][C@](F)(Cl)Br', ('kekule+implicify_hydrogens', 'delete_atom:first')),
    ('C/C=C/C', ('clean_stereo', 'add_atom+bond')), ('OC(=O)/C=C\\C(O)=O', ('neutralize', 'delete_bond:first')), ('C/C=C/C=C\\C', ('delete_atom:last',)),
    ('CC=[C@]=CC', ('clean_stereo', 'explicify_hydrogens')), ('F/C=C=C=C/F', ('clean_stereo', 'delete_atom:last')), ('C/C=C/C=[C@]=CC', ('remap:reverse',)),
    ('C[C@H]1CC[C@@H](C)CC1', ('remap:x8', 'delete_bond:ring')), ('C[C@@H]1C[C@H]1C', ('add_bond:ring',)), ('C[C@H](O)[C@@H](N)C', ('txn:commit', 'txn:rollback')),
    ('C[C@]12CC[C@H]1CCC2', ('remap:reverse',)), ('CC(=O)[C@H](C)c1ccccc1', ('canonicalize', 'standardize:log,no-taut')), ('C[S@](=O)CC', ('standardize',)),
    ('O[C@H]1C[C@@H](O)C1', ('delete_atom:first',)), ('C1CC2(C1)CCC2', ('add_atom+bond',)), ('[H]/C(F)=C(F)/[H]', ('kekule+implicify_hydrogens',)),
    ('C[C@H](F)/C=C/[C@@H](F)C', ('clean_stereo', 'txn:attr')), ('N[C@@H](C)C(=O)N[C@H](C)C(O)=O', ('neutralize', 'explicify+implicify')),
    # several components, duplicates
    ('CC.CC', ('delete_atom:last', 'union:inplace')), ('O.O.O', ('add_atom+bond',)), ('[Na+].[Cl-]', ('neutralize',)), ('CC(=O)[O-].[Na+]', ('neutralize', 'remove_metals')),
    ('CC(=O)[O-].CC(=O)[O-].[Ca+2]', ('remove_metals', 'split_metal_salts')), ('CN.Cl', ('remove_acids', 'remove_acids:log')), ('CC(O)=O.N', ('remove_acids',)),
    ('c1ccccc1.c1ccncc1.CCO', ('kekule', 'delete_atom:first')), ('[K+].[O-]c1ccccc1', ('neutralize', 'canonicalize')), ('C[NH3+].[Cl-]', ('neutralize', 'remove_acids')),
    # groups rewritten by standardize / resonance / tautomers
    ('CN(=O)=O', ('standardize', 'canonicalize')), ('C[N+]([O-])=O', ('standardize',)), ('CS(=O)C', ('standardize:log,no-taut',)), ('CN=N#N', ('standardize',)),
    ('C=[N+]=[N-]', ('standardize', 'fix_resonance:log')), ('C[N+](C)=CC=C[O-]', ('fix_resonance:log', 'canonicalize')), ('OC=CC', ('canonicalize', 'canonicalize:no-taut,log')),
    ('CC(O)=C(C)C', ('standardize', 'standardize:log,no-taut')), ('CN(C)(C)=O', ('standardize',)), ('Cc1cc(=O)[nH]c(C)n1', ('canonicalize', 'thiele:no-taut')),
    # explicit hydrogens
    ('[H]C([H])([H])[H]', ('kekule+implicify_hydrogens',)), ('[H][H]', ('kekule+implicify_hydrogens',)), ('[H]O[H]', ('kekule+implicify_hydrogens', 'explicify_hydrogens')),
    ('[H][N+]([H])([H])C', ('kekule+implicify_hydrogens', 'neutralize')), ('[H]c1ccccc1', ('kekule+implicify_hydrogens', 'canonicalize')),
    # rings: fused, cages, biphenyl bond between aromatic atoms
    ('c1ccc(-c2ccccc2)cc1', ('kekule', 'kekule+thiele', 'delete_bond:ring')), ('C12C3C4C1C5C2C3C45', ('delete_bond:ring', 'remap:x8')), ('C1CC2CCC1C2', ('delete_atom:first',)),
    ('c1ccc2ccccc2c1', ('kekule', 'add_bond:ring')), ('N1C=CN2C=CC=C12', ('thiele', 'canonicalize')), ('S1C=CN2C=CC=C12', ('thiele', 'kekule+thiele')), ('N1C=CC2=NC=CC2=C1', ('thiele', 'canonicalize')), ('O=C1C=CC(=O)C=C1', ('thiele',)),
    ('CCCC1CC1', ('delete_bond:ring',)),     # chain CH2 and ring CH2 share one Morgan hash at radius 1 (two fragment strings under one hash)
    # atom-mapped input: numbers not 1..N, insertion order != number order
    ('[CH3:5][CH2:3][OH:1]', ('add_atom+bond', 'delete_atom:first')), ('[cH:9]1[cH:3][cH:7][cH:2][cH:8][c:1]1[OH:4]', ('kekule', 'explicify_hydrogens')),
    ('[CH3:7][C@H:2]([NH2:9])[C:4](=[O:1])[OH:3]', ('neutralize', 'explicify+implicify', 'txn:commit')), ('[O:3]=[C:1]([OH:2])[CH2:10][CH2:4][NH2:6]', ('standardize', 'remap:x8')),
    ('[CH3:1000][CH2:4095][OH:2000]', ('explicify_hydrogens', 'add_atom+bond')),
    ('[cH:16]1[cH:8][cH:32][cH:24][n:40][cH:48]1', ('kekule', 'kekule+thiele', 'delete_bond:ring')), ('[CH3:9][CH2:1][CH2:17][CH3:25]', ('delete_bond:first', 'add_bond:ring')),
    ('[CH3:33][CH:1]([CH3:65])[CH3:97]', ('delete_atom:first', 'add_atom+bond')), ('[CH2:8]1[CH2:16][CH2:24][CH2:32][CH2:40][CH2:48]1', ('delete_bond:ring', 'add_bond:ring')),
]

VARIANTS = ('asis', 'norm', 'x8', 'x16+3', 'x32+31', 'desc-gaps', 'top4095', 'huge', 'shuffled')


class _Abort(Exception):
    pass


def _first_ring_bond(m):
    for n, k, b in m.bonds():
        if b.in_ring:
            return n, k
    return None


def _nonbonded_pair(m):
    """first pair of atoms (dict order) at topological distance >= 2 in one component that can take another bond: closes a ring"""
    atoms = list(m)
    for i, n in enumerate(atoms):
        for k in atoms[i + 2:]:
            if k not in m._bonds[n] and len(m._bonds[n]) < 3 and len(m._bonds[k]) < 3 and m.atom(n).atomic_number == 6 == m.atom(k).atomic_number:
                return n, k
    return None


def _txn(m, fail):
    first, last = next(iter(m)), list(m)[-1]
    try:
        with m:
            if len(m) > 1:
                m.delete_atom(last)
            if fail:
                try:    # reads inside the block: their memoised values belong to the edited state and must not survive the rollback
                    str(m), m.atoms_order, m.sssr, m.connected_components, m.smiles_atoms_order
                except Exception:
                    pass
                raise _Abort
            n = m.add_atom('N')
            m.add_bond(first, n, 1)
    except _Abort:
        return 'rolled back'
    return n


def _txn_attr(m):
    first = next(iter(m))
    with m:
        m.atom(first).charge = 1 if m.atom(first).charge <= 0 else 0
        m.atom(list(m)[-1]).isotope = None
    return True


def _union_inplace(m):
    from chython import smiles
    m |= smiles('[CH3:1][OH:2]')
    return list(m)


def _ring_add(m):
    p = _nonbonded_pair(m)
    if p is None:
        return None
    m.add_bond(*p, 1)
    return p


def _ring_del(m):
    p = _first_ring_bond(m)
    if p is None:
        return None
    m.delete_bond(*p)
    return p


def _del_first_bond(m):
    for n, k, _ in m.bonds():
        m.delete_bond(n, k)
        return n, k
    return None


def _add_atom_bond(m):
    first = next(iter(m))
    n = m.add_atom('C')
    m.add_bond(first, n, 1)
    k = m.add_atom('O', max(m) + 7)
    return n, k


def _remap(m, f):
    mp = {n: f(i, n) for i, n in enumerate(m)}
    m.remap(mp)
    return sorted(mp.items())


OPS = {
    'noop': None,
    'kekule': lambda m: m.kekule(), 'kekule:buffer1': lambda m: m.kekule(buffer_size=1),
    'thiele': lambda m: m.thiele(), 'thiele:no-taut': lambda m: m.thiele(fix_tautomers=False),
    'kekule+thiele': lambda m: (m.kekule(), m.thiele()),
    'standardize': lambda m: m.standardize(), 'standardize:log,no-taut': lambda m: m.standardize(logging=True, fix_tautomers=False),
    'canonicalize': lambda m: m.canonicalize(), 'canonicalize:keep_kekule': lambda m: m.canonicalize(keep_kekule=True),
    'canonicalize:no-taut,log': lambda m: m.canonicalize(fix_tautomers=False, logging=True),
    'neutralize': lambda m: m.neutralize(), 'neutralize:no-keep,log': lambda m: m.neutralize(keep_charge=False, logging=True),
    'standardize_charges': lambda m: m.standardize_charges(), 'standardize_charges:log,no-prepare': lambda m: m.standardize_charges(logging=True, prepare_molecule=False),
    'fix_resonance:log': lambda m: m.fix_resonance(logging=True),
    'explicify_hydrogens': lambda m: m.explicify_hydrogens(), 'explicify_hydrogens:start_map': lambda m: m.explicify_hydrogens(start_map=max(m) + 11),
    'kekule+implicify_hydrogens': lambda m: (m.kekule(), m.implicify_hydrogens()),
    'explicify+implicify': lambda m: (m.kekule(), m.explicify_hydrogens(), m.implicify_hydrogens(logging=True), m.thiele()),
    'clean_isotopes': lambda m: m.clean_isotopes(), 'clean_stereo': lambda m: m.clean_stereo(),
    'remap:reverse': lambda m: _remap(m, lambda i, n: max(m) + len(m) - i), 'remap:x8': lambda m: _remap(m, lambda i, n: 8 * n),
    'add_atom+bond': _add_atom_bond, 'add_bond:ring': _ring_add,
    'delete_atom:last': lambda m: m.delete_atom(list(m)[-1]), 'delete_atom:first': lambda m: m.delete_atom(next(iter(m))),
    'delete_bond:first': _del_first_bond, 'delete_bond:ring': _ring_del,
    'txn:commit': lambda m: _txn(m, False), 'txn:rollback': lambda m: _txn(m, True), 'txn:attr': _txn_attr,
    'remove_coordinate_bonds': lambda m: m.remove_coordinate_bonds(), 'remove_coordinate_bonds:all': lambda m: m.remove_coordinate_bonds(keep_to_terminal=False),
    'split_metal_salts': lambda m: m.split_metal_salts(), 'split_metal_salts:log': lambda m: m.split_metal_salts(logging=True),
    'remove_metals': lambda m: m.remove_metals(), 'remove_acids': lambda m: m.remove_acids(), 'remove_acids:log': lambda m: m.remove_acids(logging=True),
    'flush_cache': lambda m: m.flush_cache(), 'flush_cache:keep': lambda m: m.flush_cache(keep_sssr=True, keep_components=True),
    'union:inplace': _union_inplace,
}
ROTATING = [k for k in OPS if k != 'noop']
KEEP = [(False, False), (True, False), (False, True), (True, True)]


def _r(*tag):
    return random.Random(':'.join(map(str, (env.SEED,) + tag)))


def build_molecule(text, variant):
    """the molecule of (SMILES text, numbering variant): deterministic in (VERIF_SEED, text, variant) - every process builds the same one"""
    from chython import smiles
    from bounded import domains as D
    m = smiles(text)
    if variant == 'asis':
        return m
    if variant == 'norm':
        m.kekule()
        m.thiele()
        return m
    r = _r('d19', text, variant)
    nums = list(m)
    rank = {n: i for i, n in enumerate(sorted(nums))}
    if variant == 'x8':
        mp = {n: 8 * rank[n] + 8 for n in nums}
    elif variant == 'x16+3':
        mp = {n: 16 * rank[n] + 3 for n in nums}
    elif variant == 'x32+31':
        mp = {n: 32 * rank[n] + 31 for n in nums}
    elif variant == 'desc-gaps':
        tgt, x = [], 1
        for _ in nums:
            x += r.randint(1, 9)
            tgt.append(x)
        mp = dict(zip(nums, reversed(tgt)))
    elif variant == 'top4095':
        mp = {n: 4095 - rank[n] for n in nums}
    elif variant == 'huge':
        mp = {n: 100000 + 1024 * rank[n] for n in nums}
    elif variant == 'shuffled':
        mp = None
    else:
        raise ValueError(variant)
    if mp is not None:
        m.remap(mp)
    return D.rebuild(m, r)     # fresh container, shuffled insertion order of atoms and bonds


def molecule_items(tier, total=None):
    """[(text, variant, ops)]; quick: every special molecule under 1 variant (rotating over VARIANTS) with its targeted operations + 1 rotating
    one, a corpus sample under 1 variant with 3 rotating operations; thorough: 3 variants, 3-4 rotating operations, larger sample"""
    from bounded import domains as D
    quick = tier == 'quick'
    items = []
    rot = 0
    for i, (text, ops) in enumerate(SPECIAL):
        for j in range(1 if quick else 3):
            variant = VARIANTS[(i + 3 * j) % len(VARIANTS)]
            chosen = ['noop'] + list(ops)
            for _ in range(1 if quick else 3):
                o = ROTATING[rot % len(ROTATING)]
                rot += 1
                if o not in chosen:
                    chosen.append(o)
            items.append((text, variant, tuple(chosen)))
    n = (12 if quick else 100) if total is None else total
    for i, text in enumerate(D.corpus_sample(n, 'c19-extra')):
        for j in range(1 if quick else 2):
            variant = VARIANTS[(i * 3 + j * 4 + 1) % len(VARIANTS)]
            chosen = ['noop']
            for _ in range(3 if quick else 4):
                o = ROTATING[rot % len(ROTATING)]
                rot += 1
                if o not in chosen:
                    chosen.append(o)
            items.append((text, variant, tuple(chosen)))
    return items


# ---------------------------------------------------------------------------------------------------------------------------
# reactions
# ---------------------------------------------------------------------------------------------------------------------------
REACTIONS = [
    '[CH3:1][C:2](=[O:3])[OH:4].[CH3:5][OH:6]>>[CH3:1][C:2](=[O:3])[O:6][CH3:5].[OH2:4]',
    '[CH3:1][C:2](=[O:3])[OH:4].[CH3:5][OH:6]>OS(O)(=O)=O.c1ccncc1>[CH3:1][C:2](=[O:3])[O:6][CH3:5].[OH2:4]',
    '[CH3:1][C:2](=[O:3])[OH:4].[CH3:5][OH:6].CCN(CC)CC.O=S(=O)(O)O.c1ccncc1.ClCCl>>[CH3:1][C:2](=[O:3])[O:6][CH3:5].[OH2:4]',
    'CC(=O)O.CO>>CC(=O)OC.O', 'CCO.CCO>>CCOCC.O', 'CC(=O)[O-].[Na+].Cl>>CC(=O)O.[Na+].[Cl-]', '[Na+].[Cl-].[K+].[Br-]>>[Na+].[Br-].[K+].[Cl-]',
    'C[N+](C)(C)C.[OH-].[Na+].[Cl-]>O>C[N+](C)(C)C.[Cl-].[Na+].[OH-]', '[CH3:8][CH:16]=[CH2:24]>>[CH3:8][CH2:16][CH2:24][Br:32]',
    '[CH3:9][CH2:1][Br:17].[OH-:25]>>[CH3:9][CH2:1][OH:25].[Br-:17]', '[cH:1]1[cH:2][cH:3][cH:4][cH:5][cH:6]1>>[cH:1]1[cH:2][cH:3][c:4]([N+:7](=[O:8])[O-:9])[cH:5][cH:6]1',
    'C[C@H](O)CC>>C[C@H](Cl)CC', 'C/C=C/C>>C/C=C\\C', '[CH3:1][CH:2]=[O:3]>>[CH3:1][C@H:2]([OH:3])[C:4]#[N:5]', 'C[CH2].[CH3]>>CCC |^1:1,2|', 'CC=O>>',
    '>>CCO', 'CC>CO>', 'CN(=O)=O.c1ccccc1>>Cc1ccccc1N(=O)=O', '[2H]C([2H])([2H])O>>[2H]C([2H])=O', 'OC=CC.N>>NC(O)CC', 'CC(=O)O[Na].Cl>>CC(=O)O.Cl[Na]',
    'C1=CC=CC=C1.C1=CC=CN=C1>>C1=CC=C(C=C1)C1=CC=CN=C1', '[CH3:3][CH2:2][OH:1].[CH3:13][CH2:12][OH:11]>>[CH3:3][CH2:2][O:1][CH2:12][CH3:13].[OH2:11]',
    'CCO.CCO.CCO>>CCOCC.CCO', '[CH3:1][CH2:2][NH2:3].[CH3:4][C:5](=[O:6])[Cl:7]>CCN(CC)CC>[CH3:1][CH2:2][NH:3][C:5]([CH3:4])=[O:6].[ClH:7]',
]

R_OPS = {
    'noop': None,
    'canonicalize': lambda r: r.canonicalize(), 'canonicalize:no-map,log,no-taut': lambda r: r.canonicalize(fix_mapping=False, logging=True, fix_tautomers=False),
    'standardize': lambda r: r.standardize(), 'standardize:no-map,log,no-taut': lambda r: r.standardize(fix_mapping=False, logging=True, fix_tautomers=False),
    'kekule': lambda r: r.kekule(), 'kekule:buffer1': lambda r: r.kekule(buffer_size=1), 'thiele': lambda r: r.thiele(), 'thiele:no-taut': lambda r: r.thiele(fix_tautomers=False),
    'kekule+thiele': lambda r: (r.kekule(), r.thiele()),
    'clean_isotopes': lambda r: r.clean_isotopes(), 'clean_stereo': lambda r: r.clean_stereo(),
    'explicify_hydrogens': lambda r: r.explicify_hydrogens(), 'explicify+implicify': lambda r: (r.kekule(), r.explicify_hydrogens(), r.implicify_hydrogens(), r.thiele()),
    'remove_reagents': lambda r: r.remove_reagents(), 'remove_reagents:keep': lambda r: r.remove_reagents(keep_reagents=True),
    'remove_reagents:rules': lambda r: r.remove_reagents(mapping=False), 'remove_reagents:rules,keep': lambda r: r.remove_reagents(mapping=False, keep_reagents=True),
    'contract_ions': lambda r: r.contract_ions(), 'fix_mapping:log': lambda r: r.fix_mapping(logging=True), 'fix_groups_mapping:log': lambda r: r.fix_groups_mapping(logging=True),
    'fix_positions': lambda r: r.fix_positions(), 'flush_cache': lambda r: r.flush_cache(), 'flush_cache:keep': lambda r: r.flush_cache(keep_molecule_cache=True),
}


def reaction_items(tier):
    quick = tier == 'quick'
    ops = [k for k in R_OPS if k != 'noop']
    items = []
    rot = 0
    for i, text in enumerate(REACTIONS):
        chosen = ['noop']
        for _ in range(5 if quick else len(ops)):
            o = ops[rot % len(ops)]
            rot += 1
            if o not in chosen:
                chosen.append(o)
        if i == 2 or 'Na+' in text:      # the inputs of the operations that re-sort roles are always run through them
            chosen += [o for o in ('remove_reagents:keep', 'remove_reagents:rules,keep', 'contract_ions') if o not in chosen]
        items.append((text, tuple(chosen)))
    return items


# ---------------------------------------------------------------------------------------------------------------------------
# queries
# ---------------------------------------------------------------------------------------------------------------------------
Q_SMARTS = ['[C;r6]-[N,O]', 'c:c-[N,O]', '[C;z2]=O', '[N,O;h1,h2]', '[#6]-[#8]', '[O,N].[Cl,Na,K]', '[C@](C)(N)O', '[#6]/[#6]=[#6]/[#6]', '[C;D3]=[C;D2]',
            '[#6]~[#6]~[#7,#8]', 'C(=O)[O;D1]', '[C:7](=[O:3])-[N:1]', '[C;h3:8]-[C;h2:16]-[A:24]', 'c1ccccc1', '[A]-[M]', 'C=C=C', '[S,P;x2]', '[N;+]']
Q_TARGETS = ['CC(=O)Nc1ccc(O)cc1C(=O)N[C@@H](C)c1ccncc1', 'CC(=O)[O-].[Na+].Cl.OCC', 'C/C=C/C=C\\C(O)=O', 'N[C@@H](C)C(=O)O.N[C@H](C)C(=O)O',
             '[CH3:9][CH2:1][CH2:17][OH:25]', 'CC=C=CC.C[N+](C)(C)C', 'O=C1O~[Cu]~OC(=O)C1']


# ---------------------------------------------------------------------------------------------------------------------------
# evaluation
# ---------------------------------------------------------------------------------------------------------------------------
def digest(v):
    r = v if isinstance(v, bytes) else repr(v).encode()
    short = (v.hex() if isinstance(v, bytes) else repr(v))
    return hashlib.sha256(r).hexdigest()[:20], short[:100]


def evaluate(x, obs, reverse=False, only=None):
    from oracles.o19_obs import Harness
    out = {}
    for o in (reversed(obs) if reverse else obs):
        if only is not None and not only(o):
            continue
        try:
            out[o.name] = digest(o.fn(x))
        except Harness:
            raise
        except Exception as e:      # a library exception is a value of the observable: it must be the same everywhere too
            out[o.name] = digest(f'EXC {type(e).__name__}: {e}')
    return out


def _apply(op, x):
    """(digest of the result, raised?)"""
    try:
        res = op(x)
    except _Abort:
        raise
    except Exception as e:
        return digest(f'EXC {type(e).__name__}: {e}'), True
    from oracles.o19_obs import canon
    return digest(canon(res)), False


def _diff(kind, a, b, out, names=None):
    for name in (names if names is not None else a):
        if name in a and name in b and a[name][0] != b[name][0]:
            out.append([kind, name, a[name][1], b[name][1]])


def _c01_gap(m):
    """the recorded gaps of C01 (constitutionally equivalent substituents at a labelled element, symmetric cages): canonical strings of
    renumbered forms legitimately differ there - the fresh-parse comparison is not judged"""
    from oracles import o01_gaps
    try:
        return any(o01_gaps.gaps(m))
    except Exception:
        return True


def _flags(m):
    """predicates on the observed molecule used for known-finding families (independent of any comparison)"""
    out = {}
    try:    # the arguments used by the observables `morgan_hash_smiles` / `morgan_smiles_hash` of oracles/o19_obs
        out['morgan-hash-shared-by-fragment-strings'] = any(len(v) > 1 for v in m.morgan_hash_smiles(max_radius=2).values())
    except Exception:
        out['morgan-hash-shared-by-fragment-strings'] = False
    try:    # structure + stored labels only: an atom with >= 3 neighbours and >= 2 double bonds, one of which carries a cis/trans label
        out['labelled-double-bond-at-atom-with-two-double-bonds'] = any(
            len(nb) >= 3 and sum(1 for b in nb.values() if b.order == 2) >= 2 and any(b.order == 2 and b.stereo is not None for b in nb.values())
            for nb in m._bonds.values())
    except Exception:
        out['labelled-double-bond-at-atom-with-two-double-bonds'] = False
    return out


NF_STRINGS = ('str', 'format:A', 'format:!s', 'format:A!s!z', 'format:a', 'split:sorted-strings')


def _unequal_bond_tie(m):
    """some atom has two neighbours in one constitutional orbit that are bonded to it with different orders (Kekule benzene: both
    neighbours of an atom are equivalent atoms, one across the double, one across the single bond).  The canonical string of such a
    molecule depends on how the writer breaks the tie (C01's business, not a claim of C19): the string-valued observables are not
    compared with a fresh parse there; fingerprints, hash sets and counts still are.  Decided by the independent automorphism oracle."""
    from oracles import iso
    try:
        orb = iso.orbits(m, hydrogens=True)
    except Exception:
        return True
    for n, nb in m._bonds.items():
        seen = {}
        for k, b in nb.items():
            if seen.setdefault(orb[k], b.order) != b.order:
                return True
    return False


def run_molecule(text, variant, ops, obs, oi_item=0):
    """one record per operation: {'k': key, 'op': name, 'd': digests of the warm object after the operation, 'internal': [...], 'n': evaluations}"""
    from chython import smiles
    recs = []
    try:
        build_molecule(text, variant)
    except Exception as e:
        return [{'k': f'{text}|{variant}', 'op': 'build', 'd': {'build': digest(f'EXC {type(e).__name__}')}, 'internal': [], 'n': 1, 'fresh': 0}]
    light = lambda o: not o.heavy
    for oi, name in enumerate(ops):
        op = OPS[name]
        internal = []
        n = 0
        fresh = 0
        a = build_molecule(text, variant)
        if op is None:
            before = a.copy()
            first = evaluate(a, obs)
            second = evaluate(a, obs)
            _diff('cached', first, second, internal)
            for ks, kc in (KEEP[oi_item % 4], KEEP[(oi_item + 1 + oi_item // 4 % 3) % 4]):     # two of the four keep_* combinations per item, rotating
                c = a.copy(keep_sssr=ks, keep_components=kc)
                _diff(f'copy(keep_sssr={ks},keep_components={kc})', first, evaluate(c, obs, reverse=kc), internal)
            if oi_item % 3 == 0:
                _diff('copy.copy', first, evaluate(_copy.copy(a), obs), internal)
            else:
                _diff('copy-of-copy-before', first, evaluate(before.copy(keep_sssr=True, keep_components=True), obs, reverse=True), internal)
            _diff('rebuilt', first, evaluate(build_molecule(text, variant), obs, reverse=True), internal)
            iso = {}
            for o in obs:        # every observable alone on its own pristine copy: nothing else has been evaluated before it
                iso.update(evaluate(before.copy(), [o]))
            _diff('isolated', first, iso, internal)
            n = 7 * len(obs)
            d = first
        else:
            evaluate(a, obs, only=light)                     # every cache warm
            ra, exa = _apply(op, a)
            b = build_molecule(text, variant)
            rb, exb = _apply(op, b)                          # cold
            d = {'result': ra}
            _diff('cold-rebuild', {'result': ra}, {'result': rb}, internal)
            n = 2
            if not exa and not exb:                          # after an operation that raised the state is undefined: not observed
                oa = evaluate(a, obs)
                d.update(oa)
                _diff('cold-rebuild', oa, evaluate(b, obs, reverse=True), internal)
                ks, kc = KEEP[oi % 4]
                _diff(f'copy-after(keep_sssr={ks},keep_components={kc})', oa, evaluate(a.copy(keep_sssr=ks, keep_components=kc), obs, reverse=bool(oi % 2)), internal)
                _diff('cached-after', oa, evaluate(a, obs), internal)
                n += 4 * len(obs)
                try:
                    z = smiles(str(a))
                except Exception:
                    z = None
                if z is not None and not _c01_gap(a):
                    tie = _unequal_bond_tie(a)
                    nf = lambda o: o.nf and not (tie and o.name in NF_STRINGS)
                    _diff('fresh-parse-of-canonical-string', oa, evaluate(z, obs, only=nf), internal, names=[o.name for o in obs if nf(o)])
                    fresh = 1
                    n += sum(1 for o in obs if o.nf)
        recs.append({'k': f'{text}|{variant}', 'op': name, 'd': d, 'internal': internal, 'n': n, 'fresh': fresh, 'flags': _flags(a)})
    return recs


def run_reaction(text, ops, obs):
    from chython import smiles
    recs = []
    for oi, name in enumerate(ops):
        op = R_OPS[name]
        internal = []
        a = smiles(text)
        if op is None:
            first = evaluate(a, obs)
            _diff('cached', first, evaluate(a, obs), internal)
            _diff('copy', first, evaluate(a.copy(), obs, reverse=True), internal)
            _diff('copy.copy-of-copy', first, evaluate(a.copy().copy(), obs), internal)
            _diff('rebuilt', first, evaluate(smiles(text), obs, reverse=True), internal)
            d, n = first, 5 * len(obs)
        else:
            evaluate(a, obs)
            ra, exa = _apply(op, a)
            b = smiles(text)
            rb, exb = _apply(op, b)
            d = {'result': ra}
            _diff('cold-rebuild', {'result': ra}, {'result': rb}, internal)
            n = 2
            if not exa and not exb:
                oa = evaluate(a, obs)
                d.update(oa)
                _diff('cold-rebuild', oa, evaluate(b, obs, reverse=True), internal)
                _diff('copy-after', oa, evaluate(a.copy(), obs, reverse=bool(oi % 2)), internal)
                _diff('cached-after', oa, evaluate(a, obs), internal)
                n += 4 * len(obs)
        recs.append({'k': text, 'op': name, 'd': d, 'internal': internal, 'n': n, 'fresh': 0,
                     'roles': [len(a.reactants), len(a.reagents), len(a.products)], 'roles0': _roles0(text)})
    return recs


def _roles0(text):
    from chython import smiles
    r = smiles(text)
    return [len(r.reactants), len(r.reagents), len(r.products)]


def run_query(text, obs):
    from chython import smarts
    internal = []
    q = smarts(text)
    first = evaluate(q, obs)
    _diff('cached', first, evaluate(q, obs), internal)
    _diff('copy', first, evaluate(q.copy(), obs, reverse=True), internal)
    _diff('copy.copy-of-copy', first, evaluate(_copy.copy(q.copy()), obs), internal)
    _diff('second-parse', first, evaluate(smarts(text), obs, reverse=True), internal)
    return [{'k': text, 'op': 'noop', 'd': first, 'internal': internal, 'n': 5 * len(obs), 'fresh': 0}]
