"""C09 audit extension: domains for the SEARCH SKELETON of the compiled matcher (construction only; the contract is in checks/b09.py).

Every case is a function of a small JSON-able argument tuple (`case_topo`, `case_pair`, `case_molq`), so a violation is replayed from its
witness alone.  Seeds are explicit strings (they contain VERIF_SEED where the caller wants seeded variation)."""
import random

# ---- texts --------------------------------------------------------------------------------------------------------------------------------------

# queries the first list of b09 does not have: branched (star) queries, long chains, cage / ring-closure-heavy queries, three components,
# queries with their own numbering (not 1..N, masked atoms > 10**9), special bond, charges +-4, isotopes at the edges of the 18-bit window
# (Ca-48 = +8, Te-120 = -8, I-135 = +8), radicals, elements on both sides of the Ba|La and Rn|Fr word boundaries (Lv, Ts, Og stay out: merged bit,
# recorded layout limitation)
SMARTS = ['[A]([A])([A])[A]', '[A]([A])([A])([A])[A]', '[A]([A])([A])([A])([A])[A]', '[A]([A])([A])([A])([A])([A])[A]', 'C(C)(C)(C)C',
          '[A]([A][A])([A][A])[A][A]', '[A][A][A][A][A][A][A][A]', 'CCCCCCCCCCCC', '[A]~[A]', 'C~[A]', '[M]~[A]', '[A]-,=[A]-,=[A]-,=[A]',
          'C12C3C4C1C5C2C3C45', 'C1C2CC3CC1CC(C2)C3', 'C12C3C1C23', 'C1C2C1C2', 'C12C3C4C1C2C34', '[A]12[A][A]1[A]2', '[A]1[A]2[A][A]1[A]2',
          '[A]1[A][A]2[A][A][A]2[A]1', 'C1CC11CC1', 'C1CC2(C1)CC2', 'c1ccc2ccccc2c1', 'c1ccc2cc3ccccc3cc2c1', '[A]1[A][A][A]2[A][A][A][A][A]2[A]1',
          '[A].[A].[A]', 'C.N.O', 'CC.CC.CC', 'C1CC1.C1CC1', '[C;D1].[C;D1].[C;D1]', '[M].[Cl,Br,I]', '[A;+].[A;-]', 'C=O.C=O',
          '[C:7][N:3]', '[C:1001]([C:5])[C:40000]', '[O:99]=[C:98][N:3]', '[C;M]', '[C;M][N]', '[A;M]~[A;M]',
          '[Ti+4]', '[A;+4]', '[C-4]', '[A;-4]', '[A;+3]', '[A;-3]', '[A;+2]', '[A;-2]', '[N+]', '[O-]', '[48Ca]', '[40Ca]', '[Ca]', '[120Te]',
          '[128Te]', '[Te]', '[135I]', '[127I]', '[I]', '[2H]', '[3H]', '[1H]', '[H]', '[14C]', '[12C]', '[C] |^1:0|', '[A] |^1:0|', 'C[C] |^1:1|',
          '[A;D3] |^1:0|', '[Ba]', '[La]', '[Cs,Ba,La,Ce]', '[Xe,Hf]', '[Rn]', '[Fr]', '[At,Rn,Fr,Ra]', '[Ra,Ac,Th]', '[U,Np,Pu,Am]', '[Mc]', '[Fl,Mc]',
          '[Rf,Db,Sg]', '[W,Re,Os,Ir,Pt,Au,Hg]', '[Tl,Pb,Bi,Po]', '[M;D4]', '[M;D6]', '[M;D0]', '[M]([A])[A]', '[A;D0]', '[A;D4]', '[A;D5,D6]',
          '[A;z3]', '[A;z2;x1]', '[A;h4]', '[A;h3]', '[A;x0;r3]', '[A;r3,r4]', '[A;!R]-[A;!R]', '[A]=;@[A]', '[A]-;@[A]-;@[A]', '[A;a]:[A;a]:[A;a]']

# molecules of the input classes named in the audit: high-degree centre written LAST (it is the first start atom the matcher pops), explicit
# hydrogens, charges +-4, isotopes at the window edges, radicals, heavy elements on both sides of the word boundaries, cages, salts and
# multi-component records, special (coordinate) bonds
MOLS = ['C1.C2.C3.C4.C1234', 'CC(C)(C)C', 'C1.C2.C3.[Si]123C', 'F1.F2.F3.F4.F5.F6.S123456', 'F[U](F)(F)(F)(F)F', 'Cl1.Cl2.Cl3.Cl4.[Ti]1234',
        'C1.C2.C3.N123', 'CC1.C2.C3.C123C', 'C1(C)(C)C.C1(C)(C)C', 'CC(C)(C)CC(C)(C)C', 'CC(C)(C)C(C)(C)C', 'C1.C2.C3.C4.C5.C6.C123C456',
        '[H]C([H])([H])[H]', '[H]1.[H]2.[H]3.[H]4.C1234', '[H]O[H]', '[2H]C([2H])([2H])[2H]', '[H][H]', '[H]N([H])C([H])([H])C(=O)O[H]', '[3H]O[1H]',
        '[Ti+4]', '[C-4]', '[U+4]', '[Zr+4].[Cl-].[Cl-].[Cl-].[Cl-]', '[N-3]', '[Al+3]', '[O-2]', '[Fe+2]', '[Fe+3]', '[Si-4]', '[Pb+4]', '[Ce+4]', '[Th+4]',
        '[48Ca+2]', '[40Ca+2]', '[Ca+2]', '[48Ca]', '[120Te]', '[128Te]', 'C[Te]C', 'C[120Te]C', '[135I-]', '[127I-]', 'C[135I]', 'CI', '[14CH4]', '[12CH4]',
        '[14CH3][12CH3]', 'C[CH2] |^1:1|', '[CH3] |^1:0|', 'C[C](C)C |^1:1|', 'C[O] |^1:1|', '[OH] |^1:0|', 'C[CH]C |^1:1|', 'C[N]C |^1:1|',
        '[Ba]', '[La]', '[Ba+2].[La+3]', '[Cs+]', '[Ce]', '[Xe]', '[Hf]', 'F[Xe]F', 'Cl[Hf](Cl)(Cl)Cl', '[Rn]', '[Fr]', '[Ra]', '[At]', '[Ac]', '[Fr+].[Ra+2].[Rn]',
        '[Th]', '[U]', '[Np]', '[Pu]', '[Am]', 'O=[U]=O', 'O=[Pu]=O', '[Rf]', '[Db]', '[Sg]', '[Fl]', '[Mc]', '[Mc].[Fl].[Cn]', '[W](C)(C)(C)(C)(C)C', 'O=[Os](=O)(=O)=O',
        'Cl[Au](Cl)Cl', 'C[Hg]C', 'C[Pb](C)(C)C', 'C[Bi](C)C', '[Tl+]', '[Po]', 'C[Hg]Cl', 'Cl[Pt-2](Cl)(Cl)(Cl)(Cl)Cl', 'F[Sb-](F)(F)(F)(F)F',
        'C12C3C4C1C5C2C3C45', 'C1C2CC3CC1CC(C2)C3', 'C12C3C1C23', 'C1C2C1C2', 'C12C3C4C1C2C34', 'C1CC11CC1', 'C1CC2(C1)CC2', 'C1CC2(CC1)CCC21CC1',
        'C12C3C4C5C1C6C2C3C4C56', 'C1CC2CCC1CC2', 'C1C2CC3C1C3C2', 'C1C2C3CC4C2C4C13', 'C12C3C4C1C4C23', 'c1ccc2cc3ccccc3cc2c1', 'c1cc2ccc3cccc4ccc(c1)c2c34',
        'C.N.O', 'C.C.C', 'CC.CC.CC', 'C1CC1.C1CC1.C1CC1', 'C.N', '[Na+].[Na+].[O-]S(=O)(=O)[O-]', 'CC(=O)[O-].[NH4+]', 'O=C=O.O=C=O', 'N.N.N.N.[Cu+2]', 'C[N+](C)(C)C.[Br-]',
        'C~C', 'C[Pt]~N', 'N~[Pt](~N)(Cl)Cl', 'C1=CC=CC=C1~[Cr]', 'O~[Na+]', '[Fe]~C#N']


def big_smiles(thorough=False):
    """molecules with > 64 and > 256 atoms (index types, scratch arrays and scope arrays of the compiled generator)"""
    out = ['C' * 70, 'C' * 65 + 'N', 'OCC' * 25 + 'O', 'C1CCCCC1' + 'C2CCCCC2' * 0 + 'C' * 60 + 'C1CCCCC1', 'NCC(=O)' * 20 + 'O',
           'c1ccccc1' + 'Cc1ccc(cc1)' * 9 + 'C', 'C(C)(C)' * 30 + 'C', 'CC(C)(C)' * 22 + 'C', 'N[C@@H](C)C(=O)' * 14 + 'O',
           'C1CC2CCC1CC2' + 'C' * 50 + 'C1CC2CCC1CC2', 'C' * 257, 'NCC(=O)' * 70 + 'O', 'C1CC1' + 'C' * 255 + 'C1CC1']
    if thorough:
        out += ['C' * 600, 'OCC' * 200 + 'O', 'NC(CS)C(=O)' * 60 + 'O', 'c1ccccc1' + 'Cc1ccc(cc1)' * 60 + 'C', 'CC(C)(C)' * 120 + 'C', 'C' * 1100]
    return out


BIG_SMARTS = ['C', '[A;D1]', '[A;D4]', 'CC', 'CCC', 'C(C)(C)C', 'C(C)(C)(C)C', 'CCCCCC', '[A]1[A][A][A][A][A]1', 'C1CC1', 'C1CC2CCC1CC2', 'NCC(=O)N', 'C(=O)NCC(=O)NCC(=O)N',
              'OCCO', 'c1ccccc1', 'c1ccccc1Cc1ccccc1', '[C;D1].[C;D1]', 'C1CC1.C1CC1', '[N,O;D1]', 'CCCCCCCCCCCCCCCCCCCC', '[A;r6]', 'SC', 'C[C;D4]C', '[C;D1][C;D4]([C;D1])[C;D1]']

VARIANTS = ['id', 'gaps', 'desc', 'perm', 'big', 'huge', 'rev', 'shuf', 'shuf+perm']
QVARIANTS = ['id', 'rev', 'shuf', 'shuf+big', 'collide']


# ---- renumbering / insertion order --------------------------------------------------------------------------------------------------------------

def reorder(g, order, r=None):
    """same graph object class, same atom / bond objects and labels, atoms (and neighbour dicts) in another insertion order"""
    c = _copy(g)
    pos = {n: i for i, n in enumerate(order)}
    atoms = {n: c._atoms[n] for n in order}
    bonds = {}
    for n in order:
        ks = list(c._bonds[n])
        if r is not None:
            r.shuffle(ks)
        else:
            ks.sort(key=pos.__getitem__)
        bonds[n] = {k: c._bonds[n][k] for k in ks}
    c._atoms, c._bonds = atoms, bonds
    c.flush_cache()
    return c


def variant(g, tag, seed):
    """copy of a molecule or query under another numbering / insertion order; returns (copy, {old number: new number})"""
    r = random.Random(seed)
    mp = {n: n for n in g}
    if tag == 'id':
        return g, mp
    c = _copy(g)
    for t in tag.split('+'):
        nums = list(c)
        if t == 'rev':
            c = reorder(c, nums[::-1])
            continue
        if t == 'shuf':
            o = nums[:]
            r.shuffle(o)
            c = reorder(c, o, r)
            continue
        if t == 'gaps':
            step = {n: 3 + 7 * i for i, n in enumerate(nums)}
        elif t == 'desc':
            step = {n: len(nums) - i for i, n in enumerate(nums)}
        elif t == 'perm':
            tgt = nums[:]
            r.shuffle(tgt)
            step = dict(zip(nums, tgt))
        elif t == 'big':
            tgt = [1000 + 65536 * (i % 3) + 13 * i for i in range(len(nums))]
            r.shuffle(tgt)
            step = dict(zip(nums, tgt))
        elif t == 'huge':
            step = {n: 10 ** 9 - 5 * i for i, n in enumerate(nums)}
        elif t == 'collide':           # 1..k in reverse order of the current numbers
            step = {n: len(nums) - i for i, n in enumerate(sorted(nums))}
        else:
            raise ValueError(t)
        c.remap(step)
        mp = {k: step[v] for k, v in mp.items()}
    return c, mp


def _copy(g):
    c = g.copy()
    if hasattr(type(g), '_smarts') and not hasattr(c, '_smarts'):      # Graph.copy does not bind the text slot of a QueryContainer
        c._smarts = getattr(g, '_smarts', '')
    return c


# ---- queries built through the API --------------------------------------------------------------------------------------------------------------

def graph_query(g, order, bonds='single', ringmarks=False):
    """topological query of a networkx graph: any-element atoms inserted in `order`, numbers = node + 1"""
    import networkx as nx
    from chython.containers import QueryContainer
    from chython.containers.bonds import QueryBond
    from chython.periodictable import AnyElement
    q = QueryContainer('')
    for v in order:
        q.add_atom(AnyElement(), v + 1)
    bridges = {frozenset(e) for e in nx.bridges(g)} if ringmarks else set()
    pos = {v: i for i, v in enumerate(order)}
    for a, b in sorted(g.edges, key=lambda e: sorted((pos[e[0]], pos[e[1]]))):
        o = (1,) if bonds == 'single' else (1, 2, 3, 4, 8)
        ir = None
        if ringmarks:
            ir = frozenset((a, b)) not in bridges
        q.add_bond(a + 1, b + 1, QueryBond(o, ir))
    return q


def mol_query(m, atoms, level, ringmarks=True, stereo=False):
    """query of the substructure of m on `atoms` (insertion order as given).  level 0: elements, charges, radicals, isotopes; 1: + neighbours and
    hybridisation; 2: + heteroatoms, known hydrogen counts, ring sizes (<= 65) / not-in-ring and ring marks of the bonds"""
    from chython.containers import QueryContainer
    from chython.containers.bonds import QueryBond
    from chython.periodictable import QueryElement
    q = QueryContainer('')
    aset = set(atoms)
    whole = {n for n in atoms if aset.issuperset(m._bonds[n])}       # a stereo mark of the query needs the whole environment of the centre in the query
    for n in atoms:
        a = m._atoms[n]
        x = QueryElement.from_atom(a, neighbors=level >= 1, hybridization=level >= 1, heteroatoms=level >= 2, hydrogens=level >= 2, stereo=stereo and n in whole)
        if level >= 2:
            rs = sorted(s for s in a.ring_sizes if s <= 65)
            if rs:
                x.ring_sizes = tuple(rs)
            elif not a.ring_sizes:
                x.ring_sizes = 0
        q.add_atom(x, n)
    for n in atoms:
        for k, b in m._bonds[n].items():
            if k in aset and not q.has_bond(n, k):
                q.add_bond(n, k, QueryBond.from_bond(b, stereo=stereo and n in whole and k in whole, in_ring=ringmarks and level >= 2))
    return q


def connected_subset(m, r, k):
    """k atoms of m grown from a seeded start atom along bonds, in growth order (k >= len -> all atoms of the start's component first)"""
    nums = list(m)
    start = r.choice(nums)
    out, seen, front = [start], {start}, [start]
    while front and len(out) < k:
        n = front.pop(r.randrange(len(front)))
        nb = [x for x in m._bonds[n] if x not in seen]
        r.shuffle(nb)
        for x in nb:
            if len(out) < k:
                seen.add(x)
                out.append(x)
                front.append(x)
        if n in front:
            front.remove(n)
    return out


def scope_of(m, seed, kind):
    """searching_scope argument of kind: None, 'all', 'empty', 'half', 'most', 'foreign' (numbers the molecule does not have included), as set / list / tuple"""
    if kind is None:
        return None
    r = random.Random(seed)
    nums = list(m)
    if kind == 'all':
        s = nums
    elif kind == 'empty':
        s = []
    elif kind == 'half':
        s = [n for n in nums if r.random() < .5]
    elif kind == 'most':
        s = [n for n in nums if r.random() < .85]
    elif kind == 'foreign':
        s = [n for n in nums if r.random() < .7] + [max(nums) + 1, max(nums) + 17, 0]
    else:
        raise ValueError(kind)
    r.shuffle(s)
    return (set, list, tuple)[r.randrange(3)](s)


SCOPES = [None, 'all', 'empty', 'half', 'most', 'foreign']


# ---- edit scripts (call sequences on ONE molecule object) --------------------------------------------------------------------------------------

class NotApplicable(Exception):
    """raised by an edit script BEFORE it touches the molecule"""


def _pick(r, items):
    items = list(items)
    if not items:
        raise NotApplicable
    return r.choice(items)


def edit_ops():
    """(name, fn(m, r)) - public editing calls that change what the matcher must see; each leaves the molecule in a state the library documents as
    consistent (attribute changes only inside a transaction)"""
    def add_c(m, r):
        k = _pick(r, m)
        n = m.add_atom('C')
        m.add_bond(k, n, 1)

    def add_n_far(m, r):
        m.add_atom('N', max(m) + 50)

    def add_ring_bond(m, r):
        nums = list(m)
        a, b = _pick(r, [(a, b) for a in nums for b in nums if a < b and not m.has_bond(a, b)][:400])
        m.add_bond(a, b, 1)

    def del_atom(m, r):
        m.delete_atom(_pick(r, m))

    def del_bond(m, r):
        a, b, _ = _pick(r, m.bonds())
        m.delete_bond(a, b)

    def charge(m, r):
        n = _pick(r, m)
        with m:
            m.atom(n).charge = r.choice([1, -1, 2])

    def radical(m, r):
        n = _pick(r, m)
        with m:
            m.atom(n).is_radical = not m.atom(n).is_radical

    def isotope(m, r):
        n = _pick(r, [x for x, a in m.atoms() if a.atomic_number == 6])
        with m:
            m.atom(n).isotope = 13

    def order(m, r):
        a, b, bd = _pick(r, m.bonds())
        m.delete_bond(a, b)
        m.add_bond(a, b, 2 if bd.order == 1 else 1)

    def kek(m, r):
        m.kekule()

    def thi(m, r):
        m.thiele()

    def expl(m, r):
        m.explicify_hydrogens()

    def impl(m, r):
        m.kekule()
        m.implicify_hydrogens()

    def remap(m, r):
        nums = list(m)
        tgt = [n + 100 for n in nums]
        r.shuffle(tgt)
        m.remap(dict(zip(nums, tgt)))

    def union(m, r):
        from chython import smiles
        m |= smiles('OC=O')        # returns a new object for |, but |= edits in place
        return m

    return [('add_c', add_c), ('add_n_far', add_n_far), ('add_ring_bond', add_ring_bond), ('del_atom', del_atom), ('del_bond', del_bond), ('charge', charge),
            ('radical', radical), ('isotope', isotope), ('order', order), ('kekule', kek), ('thiele', thi), ('explicify', expl), ('implicify', impl),
            ('remap', remap), ('union', union)]
