"""Engine B domains: the corpus shipped in the repository, the networkx graph atlas (every graph <= 7 nodes), decorated
small molecules, renumbering / insertion-order permutations.  Every sampled choice is seeded by VERIF_SEED."""
import csv
import itertools
import random

from vlib import env


def rnd(tag=''):
    return random.Random(f'{env.SEED}:{tag}')


def corpus_smiles():
    """the 4200 drug-like SMILES of pach/lipophilicity.csv (column 2)"""
    with open(env.repo_path('pach/lipophilicity.csv'), encoding='utf8') as f:
        rows = list(csv.reader(f))[1:]
    return [r[2] for r in rows]


def corpus_sample(n, tag='corpus'):
    s = corpus_smiles()
    if n is None or n >= len(s):
        return s
    r = rnd(tag)
    return r.sample(s, n)


def norm(m):
    """aromaticity normal form used before comparing molecules read from different spellings (DESIGN: bounded-check lessons)"""
    m.kekule()
    m.thiele()
    return m


def parse(s, normalise=True):
    from chython import smiles
    m = smiles(s)
    return norm(m) if normalise else m


def atlas(max_nodes=6, max_deg=4, connected=True, min_nodes=1):
    import networkx as nx
    from networkx.generators.atlas import graph_atlas_g
    out = []
    for g in graph_atlas_g():
        n = g.number_of_nodes()
        if n < min_nodes or n > max_nodes:
            continue
        if max(dict(g.degree()).values(), default=0) > max_deg:
            continue
        if connected and not nx.is_connected(g):
            continue
        out.append(g)
    return out


def build(g, el=None, od=None, perm=None, node_order=None, edge_order=None, charges=None, fix=True):
    """MoleculeContainer from a networkx graph: el[v] symbol, od[frozenset(e)] order, perm[v] -> atom number - 1"""
    from chython.containers import MoleculeContainer
    m = MoleculeContainer()
    nodes = node_order or list(g.nodes)
    perm = perm or {v: i for i, v in enumerate(g.nodes)}
    for v in nodes:
        n = m.add_atom(el[v] if el else 'C', perm[v] + 1, _skip_calculation=True)
        if charges and charges.get(v):
            m._atoms[n]._charge = charges[v]
    for a, b in (edge_order or list(g.edges)):
        m.add_bond(perm[a] + 1, perm[b] + 1, od[frozenset((a, b))] if od else 1, _skip_calculation=True)
    if fix:
        m.fix_structure()
    return m


def decorate(g, r, elements=('C', 'C', 'C', 'N', 'O', 'S'), p_double=.25, p_triple=.05):
    """seeded element / bond-order decoration; returns (el, od)"""
    el = {v: r.choice(elements) for v in g.nodes}
    od = {frozenset(e): 1 for e in g.edges}
    for e in g.edges:
        x = r.random()
        if x < p_triple and all(g.degree(v) <= 2 for v in e):
            od[frozenset(e)] = 3
        elif x < p_double + p_triple and all(g.degree(v) <= 3 for v in e):
            od[frozenset(e)] = 2
    return el, od


def decorated_atlas(max_nodes=6, trials=3, tag='atlas', valid_only=True, **kw):
    """yield (graph, el, od, molecule) for seeded decorations of every atlas graph; valence-valid ones only by default"""
    r = rnd(tag)
    for g in atlas(max_nodes):
        seen = set()
        for t in range(trials):
            el, od = decorate(g, r, **kw) if t else ({v: 'C' for v in g.nodes}, {frozenset(e): 1 for e in g.edges})
            key = (tuple(sorted(el.items())), tuple(sorted((tuple(sorted(k)), v) for k, v in od.items())))
            if key in seen:
                continue
            seen.add(key)
            try:
                m = build(g, el, od)
            except Exception:
                continue
            if valid_only and m.check_valence():
                continue
            yield g, el, od, m


def permutations_of(nodes, r, limit_full=5, k=20):
    nodes = list(nodes)
    if len(nodes) <= limit_full:
        for p in itertools.permutations(nodes):
            yield dict(zip(nodes, p))
    else:
        for _ in range(k):
            p = nodes[:]
            r.shuffle(p)
            yield dict(zip(nodes, p))


def renumber(m, r, offset=0):
    """copy of m with atom numbers permuted (numbers drawn from the same set, optionally shifted)"""
    nums = list(m)
    tgt = [x + offset for x in nums]
    r.shuffle(tgt)
    mp = dict(zip(nums, tgt))
    c = m.copy()
    c.remap(mp)
    return c, mp


def rebuild(m, r=None, keep_stereo=True):
    """independent rebuild: fresh container, same atoms/bonds/labels, optionally shuffled insertion order"""
    from chython.containers import MoleculeContainer
    from chython.containers.bonds import Bond
    new = MoleculeContainer()
    nodes = list(m._atoms)
    edges = [(a, b, bd) for a, b, bd in m.bonds()]
    if r is not None:
        r.shuffle(nodes)
        r.shuffle(edges)
    for n in nodes:
        a = m._atoms[n]
        x = type(a)(a.isotope, charge=a.charge, is_radical=a.is_radical, x=a.x, y=a.y,
                    implicit_hydrogens=a.implicit_hydrogens, stereo=a.stereo if keep_stereo else None)
        new.add_atom(x, n, _skip_calculation=True)
    for a, b, bd in edges:
        if r is not None and r.random() < .5:
            a, b = b, a
        nb = Bond(bd.order)
        if keep_stereo:
            nb._stereo = bd.stereo
        new.add_bond(a, b, nb, _skip_calculation=True)
    new.calc_labels()
    new._changed = None
    return new
