"""Input classes added to the C01 bounded stand-in by the coverage audit (checks/b01.py only; bounded/d01_molgen.py stays as it is
because checks/b02.py shares it).  Every class is a branch / option of the anchored functions that the decorated atlas, the hand
written molecules and the corpus never (or hardly ever) reach:

  special-bond     bond order 8 ('~', `Bond.__hash__` = 8, `_format_bond` last branch), incl. atoms that differ only in being bound by '~' or '-'
  aromatic-exotic  aromatic B / P / Se / charged N, O, S, C (`_format_atom` pyrrole-type branch for B and P, lower-case + charge)
  elemental        hydrogen-free B, C, P, S, Si atoms (`_format_atom` "elemental" branch), H2, explicit hydrogens incl. a centre with H
  hetero-p         P with hydrogens in every hybridisation (`_format_atom` last branch), high-valent S / P / I
  high-degree      coordination centres with 5-8 neighbours (branch sorting in `_smiles`, long neighbour tuples in `_morgan`)
  components       stereo twins in different components (enantiomer pair, the same enantiomer twice, three components), equal larger
                   components, ions next to them (start selection per component in `_smiles`)
  long             chains / macrocycles / polyenes of 20-40 atoms whose classes split late (many `_morgan` rounds), distant RS pairs
  ring-stereo      ring allenes, trans-cycloalkenes with substituents, stereo centres attached to / inside rings that are not symmetric
  closures         >= 10 ring closures open at once (two-digit `%nn` numbers, heavy number recycling)
"""
from bounded import domains as D
from bounded import d01_molgen as G

CLASSES = {
    'special-bond': (
        'C~C', 'C~N', 'C1~C~C1', 'C~1~C~C~C~C~1', '[Fe]~C', 'CO(C)~[Mg](Br)C', 'CC~CC', 'C=C~[Pd]', 'N~[Cu]~N', 'C1CC~1', 'O=C~[Fe]~C=O', 'C~C.C~C',
        'c1ccccc1~[Cr]', 'CC(C)~[Li]', 'F~[Xe]~F', 'C(~[Li])(~[Na])F',
        '[Na]~O[Na]', '[Li]~C([Li])(C)C', 'Cl~[Pt](Cl)(~Cl)Cl', 'C1C~CC1', 'OC(~O)=O', 'N~C1CC1N',
    ),
    'aromatic-exotic': (
        'c1cc[se]c1', 'c1cc[pH]c1', 'c1cc[bH]c1', 'c1cc[nH+]cc1', 'C[n+]1ccccc1', 'c1cc[o+]cc1', 'c1cc[s+]cc1', '[cH-]1cccc1', 'c1ccp(C)c1',
        'c1ccb(C)c1', 'c1c[se]cn1', 'c1cc[n+]([O-])cc1', 'c1ccc2[se]ccc2c1', 'c1cc[nH]n1', 'c1c[nH]cn1', 'c1nc[nH]n1', 'c1nnn[nH]1', 'Cn1cc[n+](C)c1',
        '[O-]c1cc[nH+]cc1', 'c1ccc2[nH]c3ccncc3c2c1', 'c1cc2ccc3cccc4cnc(c1)c2c34', 'C[n+]1ccccc1.[I-]', 'c1ccc[cH-]1.[Na+]', 'c1cc[cH-]c1.c1cc[cH-]c1.[Fe+2]',
        'c1ccc2c(c1)[pH]c1ccncc12', 'c1cnc2[nH]ccc2c1', 'c1ccoc1', 'c1cscn1', 'O=c1cc[nH]cc1', 'O=c1[nH]cccc1', 'Cc1c[nH]c(=O)[nH]c1=O',
    ),
    'elemental': (
        '[C]', '[S]', '[B]', '[P]', '[Si]', '[H][H]', '[C].[C]', '[S].S', '[C].C', '[B].B', '[P].P', '[C]#[C]', '[C-]#[C-].[Ca+2]', '[H]C([H])([H])[H]', '[H]O[H]',
        '[C@]([H])(F)(Cl)Br', '[C@@]([H])(F)(Cl)Br', '[H]/C(F)=C(/[H])F', '[H]c1ccccc1', '[H][N+]([H])([H])[H]', '[2H]C([2H])([2H])O[H]', '[H]C(=O)O[H]',
        '[H]C([H])([H])C([H])([H])[H]', '[H]N([H])[C@]([H])(C)C(=O)O[H]', '[H][C@](C)(F)[C@]([H])(C)Cl', '[H-].[Li+]', '[H+].[H-]', '[H][H].[H][H]', '[3H][H]',
    ),
    'hetero-p': (
        'C=[PH]', 'C[PH2]', 'C[PH](C)=O', 'P', 'PP', 'C#P', 'CP(C)C', 'CP(C)(C)=O', 'C[PH]C', '[PH4+]', 'O=[PH](O)O', 'FP(F)(F)(F)F', 'CS(C)(=O)=O', 'CS(C)=O',
        'FS(F)(F)F', 'O=S(=O)=O', 'FI(F)F', 'O=[Cl](=O)(=O)O', 'CS(=O)O', 'C=[SH2]', 'B', 'BB', 'CB(C)C', '[BH4-]', '[BH3-][NH3+]', 'C[B-](C)(C)C.[Li+]',
    ),
    'high-degree': (
        'F[S](F)(F)(F)(F)F', 'Cl[Pt](Cl)(N)N', 'N~[Co+3](~N)(~N)(~N)(~N)~N', 'F[P-](F)(F)(F)(F)F', 'FI(F)(F)(F)(F)(F)F', 'O=[Os](=O)(=O)=O', 'Cl[Pt](N)(Cl)N',
        'FS(F)(F)(F)(F)C', 'F[Te](F)(F)(F)(F)F', 'Cl[Ir](Cl)(Cl)(~N)(~N)~N', 'C[Sn](C)(C)C', 'O~[Fe+2](~O)(~O)(~O)(~O)~O', 'N#C~[Fe+2](~C#N)(~C#N)(~C#N)(~C#N)~C#N',
        'F[U](F)(F)(F)(F)F', 'Cl[Ti](Cl)(Cl)Cl', 'O[Zr](O)(O)O', 'F[Si-2](F)(F)(F)(F)F', 'F[Sb-](F)(F)(F)(F)F', 'F[Al-3](F)(F)(F)(F)F', 'F[Mo](F)(F)(F)(F)F', 'C[Al](C)C.C[Al](C)C',
        'F[Xe](F)(F)(F)(F)F', 'N1CCN~[Cu+2]~1', 'O=C1O[Cu]OC1=O', 'O=[Mn](=O)(=O)[O-].[K+]', 'F[I](F)(F)(F)F',
    ),
    'components': (
        'C[C@H](F)Cl.C[C@@H](F)Cl', 'C[C@H](F)Cl.C[C@H](F)Cl', 'C[C@H](F)Cl.C[C@@H](F)Cl.C[C@H](F)Cl', 'C[C@H](F)Cl.C[C@@H](F)Cl.[Na+].[Cl-]',
        'N[C@@H](C)C(=O)O.N[C@H](C)C(=O)O', 'F/C=C/F.F/C=C\\F', 'F/C=C/F.F/C=C/F', 'CC=[C@]=CF.CC=[C@@]=CF', 'c1ccccc1.c1ccccc1', 'c1ccccc1.c1ccncc1.c1ccccc1',
        'CCO.CCO.CCO', 'CCO.OCC.CCN', 'OCC(O)CO.OCC(O)CO', 'C[C@H](O)[C@@H](C)O.C[C@H](O)[C@H](C)O', 'C[C@H](O)[C@H](C)O.C[C@@H](O)[C@@H](C)O',
        '[Na+].[Na+].[O-]C(=O)[C@H](O)[C@@H](O)C([O-])=O', 'C1CCCCC1.C1CCCCC1.C1CCCC1', '[13CH4].C.[2H]C', 'CC(=O)[O-].CC(=O)[O-].[Ca+2]', 'C[N+](C)(C)C.F[B-](F)(F)F',
        'OC(=O)[C@H](O)[C@H](O)C(O)=O.OC(=O)[C@@H](O)[C@@H](O)C(O)=O', '[CH3].[CH3].C', '[O].[O].[O-][O]', 'C[C@H](F)[CH2].C[C@@H](F)[CH2]',
    ),
    'long': (
        'C' * 30, 'C' * 29 + 'O', 'C1' + 'C' * 29 + '1', 'C1' + 'C' * 28 + 'O1', 'N' + 'C' * 33 + 'O', 'C(' + 'C' * 12 + 'O)(' + 'C' * 12 + 'N)' + 'C' * 12 + 'S',
        'C(' + 'C' * 12 + 'O)(' + 'C' * 12 + 'O)' + 'C' * 12 + 'S', 'C=C' * 12, 'C=C' * 11 + 'C=O', 'OCC' * 10 + 'O', 'C#C' * 8, 'C#C' * 8 + 'C',
        'C[C@H](O)' + 'C' * 14 + '[C@@H](C)O', 'C[C@H](O)' + 'C' * 14 + '[C@H](C)O', 'C[C@H](O)' + 'C' * 15 + '[C@@H](C)O', 'F/C=C/' + 'C' * 12 + '/C=C/F',
        'F/C=C/' + 'C' * 12 + '/C=C\\F', 'C1' + 'C' * 10 + 'C(=O)' + 'C' * 10 + 'C(=O)1', 'C1' + 'C' * 10 + 'C(=O)' + 'C' * 11 + 'C(=O)1',
        'c1ccccc1' + 'C' * 16 + 'c1ccccc1', 'c1ccccc1' + 'C' * 16 + 'c1ccncc1', 'O=C(O)' + 'C' * 20 + 'C(=O)O', 'C1CC1' + 'C' * 20 + 'C1CC1',
        'C1CC1' + 'C' * 20 + 'C1CCC1', 'C(C)(C)(C)' + 'C' * 20 + 'C(C)(C)C', 'N[C@@H](C)C(=O)' * 5 + 'O', 'N[C@@H](C)C(=O)N[C@H](C)C(=O)N[C@@H](C)C(=O)N[C@H](C)C(=O)O',
        'C1CCCCC1CCCCCCCCCCCCC1CCCCC1', 'CC(C)CCCC(C)CCCC(C)CCCC(C)C', 'C' * 10 + 'N(' + 'C' * 10 + ')' + 'C' * 11,
    ),
    'ring-stereo': (
        'O1CCCC=[C@]=CCC1', 'O1CCCC=[C@@]=CCC1', 'CC1CCCC=[C@]=CCC1', 'CC1CC/C=C/CCCC1', 'CC1CC/C=C\\CCCC1', 'C[C@H]1CC/C=C/CCCC1', 'C[C@@H]1CC/C=C/CCCC1',
        'C[C@H]1CCCO1', 'C[C@H]1CCCN[C@@H]1C', 'C[C@H]1CCCN[C@H]1C', 'C[C@@H]1CC[C@H](O)C1', 'C[C@@H]1CC[C@@H](O)C1', 'O[C@H]1[C@H](O)[C@@H](O)[C@H](O)[C@@H](CO)O1',
        'O[C@@H]1[C@H](O)[C@@H](O)[C@H](O)[C@@H](CO)O1', 'C[C@]12CC[C@H]3[C@@H](CCc4cc(O)ccc34)[C@@H]1CC[C@@H]2O', 'C[C@H](F)C1CCCCC1', 'C[C@H](F)c1ccccc1',
        'C[C@H](F)C1CCOCC1', 'F[C@H]1C[C@@H]1Cl', 'F[C@H]1C[C@H]1Cl', 'F[C@H]1CO1', 'C[C@@]12CCC[C@H]1CCCC2', 'C[C@@]12CCC[C@@H]1CCCC2', 'O1C[C@H]2CC[C@@H]1N2C',
        'OC1CCC(=C=CF)CC1', 'F/C=C1\\CCC(C)C1', 'F/C=C1/CCC(C)C1', 'C(/F)=C1/CCCC(=O)C1', 'F/C=C/C1CC1', 'C/C=C/C=C/[C@H](C)O', 'C/C=C\\C=C\\[C@@H](C)O',
    ),
}


def class_records():
    """[(class, record)]: records of the fixed molecules above (id `x:<class>:<text>`), identical in every tier / seed"""
    out = []
    for cls, texts in CLASSES.items():
        for s in texts:
            out.append((cls, G.rec_of(D.parse(s), f'x:{cls}:{s}', hydrogens=True)))
    return out


def closure_records(count=1, n_atoms=36):
    """4-regular random graphs that keep >= 10 ring closures open in every DFS order; only the decorated ones (an isotope and a hetero atom
    break the regularity, an undecorated regular graph is one colour class for any refinement)"""
    recs = [r for r in G.expander_records(n_atoms, 2 * count, tag=f'x-closures{n_atoms}') if r['atoms'][1][0] == 'Si']
    for r in recs:
        r['id'] = 'x:closures:' + r['id']
    return recs


def sparse_numbers(n, r, top=100000):
    """n distinct atom numbers with gaps, not in order, some above 999 / 65535"""
    return r.sample(range(0, top), n)
