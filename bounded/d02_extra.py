"""Domain additions of the C02 bounded stand-in (checks/b02.py): input classes and molecule states the first version never wrote.

  EXTRA_SMILES   hand-written inputs per input class: stereo in two components / after a dot, explicit hydrogens on stereo elements,
                 cyclic allenes, hetero cis/trans (imines, oximes, azo), exocyclic and ring-closure cis/trans, ring-fusion centres with two
                 closure digits, aromatic B / P / Se / charged / isotopic / anionic rings, pyrrole-type and fused hetero rings, charges +-4,
                 three-digit isotopes, bare and `elemental' atoms, H2 / H+ / H-, any-order bonds, macrocyclic dienes outside the recorded family
  numberings     atom numbers that are not 1..N in order: descending, with gaps, four-digit (incl. the largest map the reader's atom token
                 accepts, 9999), each with a shuffled insertion order of atoms and bonds (records are rebuilt through the public API)
  kekule forms   the same molecules in Kekule form (the writer sees localised double bonds, no aromatic atoms)
"""
from bounded import domains as D, d01_molgen as G

EXTRA_SMILES = (
    # stereo in more than one component (first atom of a later component carries the reversed mark), salts
    'C[C@H](F)Cl.C[C@@H](F)Cl', 'C[C@H](F)Cl.C[C@H](F)Cl', '[Na+].[O-]C(=O)[C@H](C)N.Cl', 'F/C=C/F.F/C=C\\F', 'N[C@@H](C)C(O)=O.N[C@H](C)C(O)=O',
    'CC=[C@]=CC.C[C@H](O)F', '[CH3].C[C@H](F)[CH2]', '[2H][C@H](C)O.[Na+].[Cl-]',
    # explicit hydrogens on stereo elements
    '[H][C@](F)(Cl)Br', '[H]/C(F)=C(/[H])F', '[2H]/C(F)=C(/[2H])F', '[H][C@@](C)(O)[2H]', '[H]C([H])([H])[C@H](F)Cl', '[H]/C(C)=C/C', '[3H]/C(C)=C\\[2H]',
    '[H][H]', '[2H][2H]', '[H+]', '[H-]', '[H][2H]', '[2H]O[2H]', '[H]O',
    # allenes / cumulenes in rings and with hetero ends
    'C1CCCC=[C@]=CCC1', 'C1CCCC=[C@@]=CCC1', 'CC(F)=[C@]=C1CCC(C)CC1', 'FC(Cl)=C=C=C=C(F)Cl', 'C/C(F)=C=C=C(/C)F', 'C/C(F)=C=C=C(\\C)F', 'CC=[C@]=C(C)[C@H](F)Cl',
    # hetero cis/trans, exocyclic, closures
    'F/N=N/F', 'F/N=N\\F', 'C/C=N/O', 'C/C=N\\O', 'C/C(=N/O)/C=N/O', 'C/C(=N\\O)/C=N/O', 'C/N=C/C=C/C', 'C/C=C1/CCCC(C)C1', 'C/C=C1\\CCCC(C)C1',
    'O/N=C1/CCCC(C)C1', 'O/N=C1\\CCCC(C)C1', 'C/C(F)=C1/CCCC1=O', 'C/C=C1/C(C)CCC1', 'C1CCCCC/C=C/CCCC1', 'C1CCCCC/C=C\\CCCC1', 'C1CC/C=C/CC/C=C/C1',
    'C1CC/C=C\\CC/C=C/C1', 'O=C1/C(=C/c2ccccc2)CCC1', 'C(/C=C/c1ccccc1)=C\\c1ccccc1', 'C/C=C/C(/C=C/C)=C/C', 'F/C=C(/Cl)\\C=C\\Br', 'C/C=C(C)/C', 'CC(C)=C(C)/C=C/F',
    'C\\C=C/1CCCC(=O)C1', 'C/C=C/[C@H](F)/C=C\\C', 'F/C=C/C=C/C=C/C=C/F', 'F/C=C\\C=C/C=C\\C=C/F',
    # ring-fusion / bridgehead centres with two closure digits, steroids, sugars, peptides
    'C[C@]12CC[C@H]3[C@@H](CCc4cc(O)ccc34)[C@@H]1CC[C@@H]2O', 'CN1CC[C@]23c4c5ccc(O)c4O[C@H]2[C@@H](O)C=C[C@H]3[C@H]1C5', 'CC1(C)[C@H]2CC[C@]1(C)C(=O)C2',
    'C[C@@]12CCC[C@H]1CCCC2', 'C[C@]12CCCC[C@@H]1CCCC2=O', 'O[C@H]1[C@H](O)[C@@H](O)[C@H](O)[C@@H](O)[C@@H]1O', 'OC[C@H]1O[C@@H](O)[C@H](O)[C@@H](O)[C@@H]1O',
    'N[C@@H](C)C(=O)N[C@@H](CS)C(=O)O', 'C[C@H]1CC[C@@H](C(C)C)C[C@H]1O', '[C@H]1(F)[C@@H](Cl)[C@H](Br)[C@@H]1I', 'F[C@H]1C[C@@H]1Cl', 'C[C@@H]1O[C@H]1C',
    'C1C[C@H]2CC[C@@H]1C2', 'C1C[C@@H]2C[C@H]1CO2', 'O=C1[C@@H]2CC[C@H]1CC2', 'C[C@H]1[C@@H]2CC[C@H](C2)[C@@H]1C', 'C[C@@]1(F)CC[C@](C)(Cl)CC1',
    'C[C@H](N)c1ccc(cc1)[C@@H](C)N', 'C[C@H](O)CC[C@@H](C)O', 'C[C@H](O)C[C@H](C)O',
    # hetero-atom labels the library does not keep (labels are dropped on reading: the molecule of the domain is the stored one)
    'C[S@](=O)CC', 'C[S@+](CC)CCC', 'C[P@](=O)(CC)c1ccccc1', 'C[N@+](CC)(CCC)CCCC', 'C[Si@](F)(Cl)Br', '[O-][S@+](C)CC',
    # aromatic classes
    'c1cc[pH]c1', 'c1ccc[se]1', 'c1ccc[te]1', 'b1ccccc1', 'c1cc[nH+]cc1', 'c1cc[n+](C)cc1', '[13cH]1ccccc1', '[13c]1(C)ccccc1', 'c1ccoc1', 'c1ccsc1', 'c1cc[o+]cc1',
    'c1cc[s+]cc1', 'c1ccn[nH]1', 'c1cnc[nH]1', '[nH]1cccc1', 'c1ccc2[nH]ccc2c1', '[n-]1cccc1', '[cH-]1cccc1', 'C1=CC=C[CH+]C=C1', 'c1ccc2ccccc2c1', 'c1ccc2cc3ccccc3cc2c1',
    'c1cc2cccc3ccc4cccc1c4c32', 'c1ccc2c(c1)[nH]c1ccccc12', 'Cn1cnc2c1c(=O)n(C)c(=O)n2C', 'O=c1cc[nH]c(=O)[nH]1', 'Nc1ncnc2[nH]cnc12', 'c1ccc(cc1)-c1ccccn1', 'c1ccc(cc1)[N+](=O)[O-]',
    'c1cc[n+]([O-])cc1', 'c1ccc2[n+]([O-])cccc2c1', '[15n]1ccccc1', '[15nH]1cccc1', 'c1cc[c]cc1', 'c1ccccc1[CH2]', '[O]c1ccccc1', 'c1cnn[nH]1', 'c1nnn[n-]1', 'c1ccc2occc2c1',
    'c1csc(n1)-c1nccs1', 'C1=CC=CC=C1.c1ccccc1', 'O=C1C=CC(=O)C=C1', 'c1ccc2c(c1)ccc1ccccc12', 'c1ccc2cc[se]c2c1', 'Cc1cc(C)[n+](C)c(C)c1', 'c1cc[nH]c1.c1ccncc1',
    # charges to +-4, three-digit isotopes, bare / elemental atoms, odd bonds
    '[C-4]', '[Th+4]', '[Si-4]', '[Ti+4].[Cl-].[Cl-].[Cl-].[Cl-]', '[235U]', '[238U+4]', '[131I-]', '[99Tc]', '[125I]c1ccccc1', '[11CH3]O', '[18O]=C=[16O]', '[14CH4]',
    '[S]', '[C]', '[B]', '[P]', '[Si]', 'S', 'P', 'B', 'N', 'O', 'F', 'Cl', '[He]', '[Xe]', '[OH]', '[NH2]', '[NH4+]', '[OH3+]', '[BH4-]', '[AlH4-]', '[PH4+]', 'F[P-](F)(F)(F)(F)F',
    'F[B-](F)(F)F', '[O-][Cl+3]([O-])([O-])[O-]', 'O=[Os](=O)(=O)=O', 'FS(F)(F)(F)(F)F', 'FI(F)(F)(F)(F)(F)F', 'O=P(O)(O)O', 'CS(C)(=O)=O', 'C[S+](C)C', 'CP(C)(C)(C)C', 'C=P(C)(C)C',
    'C=[PH]', 'O=[PH](C)C', 'C[PH2]', 'CPC', '[C-]#[C-]', 'C#C', 'N#N', '[O-][N+]#N', 'C=[N+]=[N-]', '[N-]=[N+]=N', 'C~C', 'C1~C~C~1', 'C[Mg]Br', '[Li]C', 'C[Zn]C', 'Cl[Pt](Cl)(N)N',
    '[Fe+2].[cH-]1cccc1.[cH-]1cccc1', 'C[Se]C', 'C[As](C)C', 'C[Sn](C)(C)C', 'C[Te]C', 'Br[Si](Br)(Br)Br', 'OB(O)O', 'CB(C)C', 'C[B-](C)(C)C', 'C[Al](C)C',
    '[CH2-][N+]#N', '[CH2+]C=C', '[CH-]=C', '[CH]=C', 'C[CH]C', 'C[C](C)C', 'C[N]C', 'C[O]', 'C[S]', '[CH2]C=C', 'O=[N]', '[O][N]=O', 'C[C-](C)C', 'C[C+](C)C', 'C[NH-]', 'C[O-]', 'C[OH2+]',
)

NUMBERINGS = ('descending', 'gaps', 'four-digit')


def numbering(rec, kind, r):
    """(perm, offset, node_order, edge_order, flip_edges) of the record under a seeded numbering of the given kind"""
    n = len(rec['atoms'])
    if kind == 'descending':
        perm, offset = [n - 1 - v for v in range(n)], 1
    elif kind == 'gaps':
        step = r.choice((2, 3, 7, 11))
        perm, offset = [step * v for v in range(n)], r.choice((1, 2, 5, 100))
        r.shuffle(perm)
    elif kind == 'four-digit':
        pool = r.sample(range(1000, 9999), n - 1) + [9999] if n > 1 else [9999]
        r.shuffle(pool)
        perm, offset = pool, 0
    elif kind == 'five-digit':
        perm, offset = [10000 + 3 * v for v in range(n)], 0
    else:
        raise ValueError(kind)
    no = list(range(n))
    r.shuffle(no)
    eo = list(range(len(rec['bonds'])))
    r.shuffle(eo)
    fl = [i for i in eo if r.random() < .5]
    return perm, offset, no, eo, fl


def renumbered(rec, kind, r):
    """normalised molecule of the record under the numbering + the witness of the numbering"""
    perm, offset, no, eo, fl = numbering(rec, kind, r)
    m, dropped = G.build_rec(rec, perm, no, eo, set(fl), offset=offset)
    D.norm(m)
    return m, dropped, {'kind': kind, 'perm': perm, 'offset': offset, 'node_order': no, 'edge_order': eo, 'flip_edges': fl}


def extra_records():
    return [G.rec_of(D.parse(s), f'extra:{s}') for s in dict.fromkeys(EXTRA_SMILES)]
