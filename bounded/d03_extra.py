"""C03 extra input classes (coverage audit): fixed, seed independent enumerations of parts of the SMILES language the token alphabet of
checks/b03.py does not reach - every charge spelling, every H count spelling, every ring-closure number with every bond-symbol pair, every
element symbol, isotope ranges, atom-class numberings (gaps, descending, duplicates, > 999) in molecules and across reaction roles,
CXSMILES radical multiplicities, whitespace / empty / non-ASCII inputs, and the base strings for single edits of reactions and CXSMILES."""
import itertools

BONDS = ['', '-', '=', '#', ':', '/', '\\', '~']
ORGANIC = ['B', 'C', 'N', 'O', 'P', 'S', 'F', 'Cl', 'Br', 'I', 'b', 'c', 'n', 'o', 'p', 's']


def charge_strings():
    ch = ['', '+', '-', '++', '--', '+1', '+2', '+3', '+4', '-1', '-2', '-3', '-4',                      # the language
          '+5', '-5', '+0', '-0', '+++', '---', '++++', '----', '+-', '-+', '2+', '+12', '+ ', '+1+', '--2', '+9', '-9']
    out = []
    for el in ('C', 'N', 'O', 'Fe', 'Cl', 'H', 'c', 'n', 'se', '13C', 'C@', 'U'):
        for h in ('', 'H', 'H2'):
            if el == 'H' and h:
                continue
            for c in ch:
                out.append(f'[{el}{h}{c}]')
                out.append(f'[{el}{h}{c}:3]')
    out += [f'C[N{c}](C)C' for c in ch] + [f'[O{c}]C>>[Fe{c}]' for c in ch]
    return out


def hcount_strings():
    hs = ['', 'H', 'H0', 'H1', 'H2', 'H3', 'H4', 'H5', 'H9', 'H10', 'H01', 'h', 'HH', 'H-1', 'H+', 'H-', 'H2+', 'H3-2', 'H@', 'H:1', 'H1:1']
    out = []
    for el in ('C', 'N', 'O', 'B', 'P', 'S', 'Si', 'Cl', 'Fe', 'c', 'n', 'o', 'se', '2H', 'H', '15N', 'C@@'):
        for h in hs:
            out.append(f'[{el}{h}]')
            out.append(f'C[{el}{h}]')
            out.append(f'[{el}{h}]=O')
    return out


def closure_strings():
    out = []
    nums = [str(d) for d in range(0, 10)] + [f'%{d:02d}' for d in range(0, 100)] + ['%1', '%100', '%', '%%10', '%1a']
    for d in nums:
        out += [f'C{d}CC{d}', f'c{d}ccccc{d}', f'C{d}CC{d}C{d}CC{d}', f'C{d}.C{d}', f'C={d}CCC={d}', f'N{d}CC{d}>>C{d}OC{d}']
    for i, d in enumerate(nums[:110]):
        e = nums[(i * 7 + 3) % 110]
        out += [f'C{d}{e}CC{d}C{e}', f'C{d}C{e}CC{e}C{d}']
    for d in ('1', '%10', '%99'):
        for a, b in itertools.product(BONDS, repeat=2):
            for x, y in (('C', 'C'), ('c', 'c'), ('c', 'C'), ('N', 'c')):
                out.append(f'{x}{a}{d}CC{y}{b}{d}')
            out.append(f'F/C=C{a}{d}CCCCC{b}{d}')
    # the equivalent one / two digit spellings of one closure number are the same number
    out += ['C1CC%01', 'C%01CC1', 'C9CC%09', 'C%10CC%10', 'C%10CC10', 'C12CC1C2', 'C%12CC%12', 'C%12CC12', 'C1CC1%10CC%10']
    return sorted(set(out))


def element_strings():
    up, lo = 'ABCDEFGHIJKLMNOPQRSTUVWXYZ', 'abcdefghijklmnopqrstuvwxyz'
    out = [f'[{a}{b}]' for a in up for b in [''] + list(lo)] + [f'[{a}{b}]' for a in lo for b in [''] + list(lo)]
    out += [f'{a}{b}' for a in up for b in [''] + list(lo)] + [f'{a}{b}' for a in lo for b in [''] + list(lo)]   # outside brackets
    out += [f'{a}{b}{c}' for a in ORGANIC for c in ORGANIC for b in ('', '=', ':', '.')]
    out += [f'[{a}]{b}[{c}]' for a in ('se', 'as', 'te', 'si', 'Se', 'b', 'c') for c in ('se', 'te', 'c', 'C', 'ge') for b in ('', ':', '/')]
    out += [f'c1c[{a}]ccc1' for a in ('se', 'as', 'te', 'b', 'p', 'o', 's', 'n', 'c', 'nH', 'n+', 'si', 'sn', 'Se', 'cH', 'c-', 'bH', 'pH', 'n:1', 'p+')]
    return out


def isotope_strings():
    out = []
    for el in ('H', 'C', 'N', 'O', 'Cl', 'Fe', 'U', 'Og', 'c'):
        out += [f'[{i}{el}]' for i in range(0, 321)]
    out += [f'[{i}C]' for i in ('999', '1000', '01', '012', '0012', '1e1', '+13', '1 3', '13.0')]
    return out


def class_strings():
    cl = ['', ':0', ':1', ':2', ':7', ':999', ':1000', ':9999']
    out = [f'[CH3{a}][NH{b}][OH{c}]' for a, b, c in itertools.product(cl, repeat=3)]
    out += [f'[CH3{a}]C[OH{c}]N' for a, c in itertools.product(cl, repeat=2)]
    c2 = ['', ':1', ':2', ':9']
    for a, b, c, d, e in itertools.product(c2, repeat=5):
        out.append(f'[CH3{a}][NH2{b}]>[OH2{c}]>[SH{d}][PH2{e}]')
    for a, b, c, d in itertools.product(c2, repeat=4):
        out.append(f'[CH4{a}].[NH3{b}]>>[OH2{c}].[SH2{d}]')
        out.append(f'>[CH4{a}].[NH3{b}]>[OH{c}][SH{d}]')
    out += ['[C:12345]', '[C:00001]', '[C:]', '[C:-1]', '[C:1:2]', '[C:01]', '[C:0001]', '[CH4:10000]', '[CH4:9999]>>[CH4:9999]',
            '[CH3:3][CH2:2][CH3:1]', '[CH3:1000][CH3:999]', '[CH3:2]C[CH3:2]', '[CH3:5]C.[OH2:5]', '[CH3:5]C.[OH2:5]>>[CH4:5]',
            '[CH3:1][CH3:1]>>[CH3:1][CH3:1]', '[CH4:1].[CH4:1]>>[CH4:1]', '[CH4:3]>[CH4:3]>[CH4:3]', '[CH4:3]>[CH4:3].[CH4:3]>', 'C[CH3:1]>>C[CH3:3]',
            '[CH3:4]C>N>O[CH3:2]']
    return out


def cx_strings():
    out = []
    for k in range(0, 9):
        out += [f'C[CH2] |^{k}:1|', f'[CH2]C |^{k}:0|', f'CC |^{k}:0,1|', f'C[O]>>CO |^{k}:1|', f'CC.O |^{k}:2,f:0.1|']
    out += ['[CH2]C[CH2] |^1:0,^1:2|', '[CH2]C[CH2] |^1:0,2|', '[CH]C |^2:0|', '[CH]C[CH2] |^2:0,^1:2|', '[CH]C[CH2] |^1:2,^2:0|', '[CH2]C |^1:0,^2:0|',
            '[CH2]C |^1:00|', '[CH2]C |^1:0,|', '[CH2]C |^1:|', '[CH2]C |^1|', '[CH2]C |^:0|', '[CH2]C |^1:1|', '[CH2]C |^1:2|', '[CH2]C |^1:-1|',
            'C[CH2] |^1:1| title', 'C[CH2]\t|^1:1|', 'C[CH2]  |^1:1|', 'C[CH2] title |^1:1|', 'C[CH2] |^1:1', 'C[CH2] ^1:1|', 'C[CH2]|^1:1|',
            'C.N.O |f:0.1|', 'C.N.O |f:0.2|', 'C.N.O |f:1.2|', 'C.N.O |f:0.1.2|', 'C.N.O |f:0.3|', 'C.N.O |f:0|', 'C.N.O |f:0.0|', 'C.N.O |f:|',
            'C.N.O>> |f:0.1.2|', 'C.N>O.S>P |f:0.1,2.3|', 'C.N>O.S>P |f:2.3,0.1|', 'C.N>O.S>P |f:1.2|', 'C.N>O.S>P |f:3.4|', 'C.N>O.S>P.F |f:3.4.5|',
            'C.N>O.S>P.F |f:4.5|', 'C.N.O>>S |f:1.2|', 'C.N.O>>S |f:1.2,^1:0|', 'C.N.O>>S |f:1.2,^1:3|', 'C.[CH2].O>>S |f:0.1,^1:1|',
            'C.[CH2].O>>S |^1:1,f:0.1|', '[CH3].N.O>>S |f:1.2,^1:0|', 'C.N>>[CH3].O |f:2.3,^1:2|', 'C.N>>[OH].C |f:2.3,^1:2|']
    return out


def blank_strings():
    return ['', ' ', '  ', '\t', '\n', '\r\n', ' C', 'C ', '\tC', 'C\n', 'C\r\n', '\nC', 'C\tname', 'C name more', 'C  name', ' C>>N ', 'C >>N', 'C>> N',
            'C\x0bN', 'C\x0cN', 'C\x00', '\x00C', 'C\x00N', 'C\x1fN', 'C\x7fN', 'C\xa0N', 'C\u2003N', 'C\u200bN', 'C\ufeffN', '\ufeffC',
            'C\uff11CC\uff11', 'C\uff11CC\uff11>>', '>>C\u0663CC\u0663', 'C\u0663CC\u0663', 'C\u00b2', 'C\u00bd', 'C%\uff11\uff10CC%10', 'C\u0967CC1', '[\uff11\uff13C]', '[C:\uff11]', '[CH\uff12]', '[C+\uff12]',
            '\u0421', 'C\u0421', 'C\u00e9', '[\u0421]', 'C\uff1dC', 'C\uff08C\uff09', '\uff23', 'C\u2212', '[O\u2212]', 'C\u2010C', '\U0001d7cf', 'C\U0001d7cfCC\U0001d7cf']


def edit_bases():
    """base strings (reactions, CXSMILES, atom classes, isotopes, charges, two-digit closures, stereo) for the single-character edit layer"""
    return ['CC(=O)O.OCC>[H+]>CC(=O)OCC.O', '[CH3:1][OH:2]>>[CH2:1]=[O:2]', 'C.N.O>>S |f:0.2,^1:1|', '[Na+].[Cl-]>>[Na+].[Cl-] |f:0.1,2.3|',
            'C[CH2] |^1:1|', 'C.[CH2]C |^1:1,f:0.1|', 'F/C=C/C=C\\Cl>>F[C@H](Cl)Br', 'C%10CC%10>N>c1cc[nH]c1', '[13CH3-]>>[Fe+2].[O-][N+](=O)C',
            'N[C@@H](C)C(=O)O', 'C1=C/CCCCCC/1', '[2H]C([2H])([2H])[N@+](C)(CC)CCC', 'c1ccc2c(c1)[nH]c1ccccc12', 'C%11CC%11.[Cu++]>>', '>>[O-:4][15NH2:12] |^1:0|']
