"""C08 audit extension: domains (whole SMARTS strings built from templates, API-built query specifications, edit scripts on molecules).

Everything here is data / construction; meaning is assigned by oracles/o08_refsmarts.py (brackets, bond texts) and oracles/o08_whole.py."""
import itertools
import random

from vlib import env

ORG = ['C', 'N', 'O', 'S', 'P', 'F', 'Cl', 'Br', 'I', 'B']
# atom texts of whole strings (bracket bodies are inside the documented subset with a determined meaning)
ATOMS = ORG + ['[C]', '[A]', '[N,O]', '[C;D2]', '[A;r5,r6;a]', '[C;h1,h2;z2,z4]', '[O-]', '[13C]', '[N+;D4]', '[C:7]', '[N:3]', '[A;M]', '[C;M:9]',
               '[M]', '[#8;x1]', '[C,N,O;!R]', '[A;D1,D2,D3;h0]', '[Cl,Br,I]', '[#6,#7:12]', '[S;z1;x2]', '[M;D2]', '[A;z3]', '[A+2]', '[O;D1;h1]']
# atom texts of the whole strings that are also matched against molecules (generic enough to have hits)
MATCH_ATOMS = ['C', 'N', 'O', '[A]', '[C]', '[N,O]', '[A;a]', '[A;!R]', '[C;D3]', '[A;h0]', '[A;r5,r6]', '[C,N;z2]', '[A;x1,x2]', '[O;D1]']
_B = ['-', '=', '#', ':']


def bond_texts():
    """every bond text of the documented subset with a determined meaning: single symbols, lists of two, not-bonds, each bare / ;@ / ;!@"""
    core = list(_B) + [f'{a},{b}' for a in _B for b in _B if a != b] + ['!' + a for a in _B]
    return [c + r for c in core for r in ('', ';@', ';!@')]


MATCH_BONDS = ['-', '=', ':', '-,=', '=,:', '!-', '!:', '-;@', '-;!@', '=,:;@', '-,=;!@', '!=;@', '#', '-,:;@']

# (name, template, bonds [(i, j, slot or None = no bond text written)]) ; slots a0.. atoms, b0.. bond texts
SHAPES = [
    ('chain2', '{a0}{b0}{a1}', [(0, 1, 'b0')]),
    ('chain3', '{a0}{b0}{a1}{b1}{a2}', [(0, 1, 'b0'), (1, 2, 'b1')]),
    ('branch', '{a0}({b0}{a1}){b1}{a2}', [(0, 1, 'b0'), (0, 2, 'b1')]),
    ('branch2', '{a0}({b0}{a1})({b1}{a2}){b2}{a3}', [(0, 1, 'b0'), (0, 2, 'b1'), (0, 3, 'b2')]),
    ('nested', '{a0}({b0}{a1}({b1}{a2})){b2}{a3}', [(0, 1, 'b0'), (1, 2, 'b1'), (0, 3, 'b2')]),
    ('ring3-open', '{a0}{b2}1{b0}{a1}{b1}{a2}1', [(0, 1, 'b0'), (1, 2, 'b1'), (0, 2, 'b2')]),
    ('ring3-close', '{a0}1{b0}{a1}{b1}{a2}{b2}1', [(0, 1, 'b0'), (1, 2, 'b1'), (0, 2, 'b2')]),
    ('ring3-both', '{a0}{b2}1{b0}{a1}{b1}{a2}{b2}1', [(0, 1, 'b0'), (1, 2, 'b1'), (0, 2, 'b2')]),
    ('ring4-percent', '{a0}%12{b0}{a1}{b1}{a2}{b2}{a3}{b3}%12', [(0, 1, 'b0'), (1, 2, 'b1'), (2, 3, 'b2'), (0, 3, 'b3')]),
    ('ring5', '{a0}{b4}1{b0}{a1}{b1}{a2}{b2}{a3}{b3}{a4}1', [(0, 1, 'b0'), (1, 2, 'b1'), (2, 3, 'b2'), (3, 4, 'b3'), (0, 4, 'b4')]),
    ('ring6', '{a0}1{b0}{a1}{b1}{a2}{b2}{a3}{b3}{a4}{b4}{a5}{b5}1',
     [(0, 1, 'b0'), (1, 2, 'b1'), (2, 3, 'b2'), (3, 4, 'b3'), (4, 5, 'b4'), (0, 5, 'b5')]),
    ('ring-tail', '{a0}{b3}1{b0}{a1}{b1}{a2}1{b2}{a3}', [(0, 1, 'b0'), (1, 2, 'b1'), (0, 2, 'b3'), (2, 3, 'b2')]),
    ('ring-in-branch', '{a0}1{b0}{a1}({b1}{a2}{b2}1){b3}{a3}', [(0, 1, 'b0'), (1, 2, 'b1'), (0, 2, 'b2'), (1, 3, 'b3')]),
    ('bicycle', '{a0}{b2}1{b4}2{b0}{a1}{b1}{a2}1{b3}{a3}2', [(0, 1, 'b0'), (1, 2, 'b1'), (0, 2, 'b2'), (2, 3, 'b3'), (0, 3, 'b4')]),
    ('two-closings', '{a0}1{b0}{a1}2{b1}{a2}{b2}{a3}{b3}1{b4}2', [(0, 1, 'b0'), (1, 2, 'b1'), (2, 3, 'b2'), (0, 3, 'b3'), (1, 3, 'b4')]),
    ('dot', '{a0}{b0}{a1}.{a2}{b1}{a3}', [(0, 1, 'b0'), (2, 3, 'b1')]),
    ('dot-single', '{a0}.{a1}{b0}{a2}', [(1, 2, 'b0')]),
]


def _slots(tpl):
    na = max(int(x) for x in __import__('re').findall(r'\{a(\d+)\}', tpl)) + 1
    nb = max(int(x) for x in __import__('re').findall(r'\{b(\d+)\}', tpl)) + 1
    return na, nb


def _mapped(a):
    return a.startswith('[') and ':' in a


def whole_strings(n, tag, atoms=ATOMS, bonds=None, implicit=.12, cx=.25, anomalies=True):
    """n seeded whole SMARTS strings -> dicts(text, shape, atoms [texts], bonds [(i, j, text)], radicals {index}, cx class, anomaly)
    at most ONE anomaly per string: None / 'duplicate-mapping' / 'cx-radical-index-out-of-range' / 'cx-radical-on-metal'"""
    r = random.Random(f'{env.SEED}-{tag}')
    bonds = bonds or bond_texts()
    out = []
    for k in range(n):
        name, tpl, bl = SHAPES[k % len(SHAPES)]
        na, nb = _slots(tpl)
        at = []
        for _ in range(na):
            a = r.choice(atoms)
            while _mapped(a) and a in at:
                a = r.choice(atoms)
            at.append(a)
        anomaly = None
        u = r.random()
        if anomalies and u < .03 and na > 1:
            i, j = r.sample(range(na), 2)
            at[i] = at[j] = r.choice([a for a in atoms if _mapped(a)])
            anomaly = 'duplicate-mapping'
        bt = [('' if r.random() < implicit else r.choice(bonds)) for _ in range(nb)]
        text = tpl.format(**{f'a{i}': a for i, a in enumerate(at)}, **{f'b{i}': b for i, b in enumerate(bt)})
        rec = dict(text=text, shape=name, atoms=at, bonds=[(i, j, bt[int(s[1:])]) for i, j, s in bl], radicals=set(), cx=None, anomaly=anomaly)
        metals = [i for i, a in enumerate(at) if a.startswith('[M')]
        plain = [i for i in range(na) if i not in metals]
        if r.random() < cx and plain:
            mult = r.randint(1, 7)
            idx = sorted(r.sample(plain, r.randint(1, min(2, len(plain)))))
            rec['cx'] = 'valid'
            v = r.random()
            if anomalies and anomaly is None and v < .12:
                idx.append(na + r.randint(0, 3))
                rec['cx'] = rec['anomaly'] = 'cx-radical-index-out-of-range'
            elif anomalies and anomaly is None and v < .2 and metals:
                idx = sorted(set(idx + [r.choice(metals)]))
                rec['anomaly'] = 'cx-radical-on-metal'
            if r.random() < .7 or len(idx) == 1:
                rec['text'] = f'{text} |^{mult}:{",".join(map(str, idx))}|'
            else:   # one group per atom
                rec['text'] = f'{text} |' + ','.join(f'^{mult}:{i}' for i in idx) + '|'
            rec['radicals'] = set(idx)
        out.append(rec)
    return out


def match_strings(n, tag):
    """whole strings for the matching contract: no implicit bond, generic atoms, common bond specs, optional radical on one atom"""
    return whole_strings(n, tag, atoms=MATCH_ATOMS, bonds=MATCH_BONDS, implicit=0, cx=.1, anomalies=False)


# ---- raise-contract fuzz over whole strings -----------------------------------------------------------------------------------
WHOLE_ALPHABET = ['C', 'N', 'c', 'Cl', '[C]', '[A;D2]', '[N,O:2]', '-', '=', ':', '~', ',', '!', ';', '@', '(', ')', '1', '2', '%', '0', '.', '/', '\\',
                  '*', '&', '$', ' ', '|', '^1:0', '[', ']', '>', 'H']
WHOLE_SLICE = ['C', '[A;D2]', '-', '=', ',', '!', ';', '@', '(', ')', '1', '%', '.', '/', ' ', '|^1:0|', '|^1:1|', '~']


def fuzz_class(t):
    """input class of a fuzz string (predicate on the text alone)"""
    import re
    if not t.strip():
        return 'blank'
    if '^' in t:
        return 'fuzz-with-cx-radical'
    smr = re.sub(r'%\d\d', lambda m: chr(0x100 + int(m.group()[1:])), t.split()[0])   # one symbol per %nn closure
    if re.search(r'([\dĀ-Ű])\1', smr):
        return 'self-ring-closure'   # a closure number opened and closed on the same atom
    return 'fuzz'


# ---- edit scripts ---------------------------------------------------------------------------------------------------------------
EDIT_MOLS = ['C1CCCCC1CN', 'C1CC1', 'C1CCC1', 'CCCCCC', 'C1CCC2CCCCC2C1', 'C1CCC2(CC1)CCC2', 'c1ccccc1O', 'c1ccc2ccccc2c1', 'C1CC2CC12', 'C12C3C4C1C5C2C3C45',
             'OC(=O)CCN', 'C#CC=C=C', 'O=S(=O)(O)CC', '[Na+].[O-]C(=O)C', 'C[N+](C)(C)CC[O-]', 'N~[Pt](~N)(Cl)Cl', 'C1CCNCC1.Cl', '[H]C([H])([H])O[H]',
             'C1=CC=CC=C1', 'C1CCCCCCC1', 'CC(C)(C)c1ccncc1', 'C1COCCN1', 'FC(F)(F)C1CC1', 'CC=O', 'C', 'CC', '[CH2]C |^1:0|', 'C1CC1C1CC1', 'OCC1OC(O)C(O)C(O)C1O',
             'c1cc[nH]c1', 'C[Si](C)(C)C#C', 'N1(CCO2)CCO[B]2OCC1']
OPS = ['add_bond', 'add_special', 'delete_bond', 'delete_atom', 'add_atom_bond', 'transaction', 'copy', 'substructure', 'split_union', 'remap', 'kekule',
       'thiele', 'explicify', 'implicify', 'add_double', 'union_new']


def edit_scripts(n_per_mol, length, tag):
    """[(smiles index, script seed)] - the scripts are played by checks/b08.py (operations need the live molecule)"""
    return [(i, f'{env.SEED}-{tag}-{i}-{k}', length) for i in range(len(EDIT_MOLS)) for k in range(n_per_mol)]

# explicit whole strings under the raises-contract (shortest witnesses of classes the enumerations are too short to reach): (text, input class)
WHOLE_ANCHORS = [('F/C=,:C/F', 'cis-trans-around-bond-list'), ('C/C=,:C/C', 'cis-trans-around-bond-list'), ('F/C=,#C\\F', 'cis-trans-around-bond-list'),
                 ('F/C!-C/F', 'cis-trans-around-bond-list'), ('F/C=;@C/F', 'cis-trans-around-ring-bond'), ('F/C=;!@C\\F', 'cis-trans-around-ring-bond'),
                 ('F/C=C/C=C/F', 'cis-trans-plain'), ('F/C=C=C/F', 'cis-trans-plain'), ('F/C=C1/CCCO1', 'cis-trans-plain'), ('C/1=C/CCCCCC1', 'cis-trans-plain'),
                 ('[C:1][N:1]', 'duplicate-mapping'), ('C |^1:0', 'cx-unterminated'), ('C ^1:0', 'cx-without-bars'), ('C |^1:0|  |^1:0|', 'cx-twice'),
                 ('C\t|^1:0|', 'cx-after-tab'), ('C\n', 'trailing-newline'), (' C', 'leading-blank'), ('C11', 'self-ring-closure'), ('C/C11', 'self-ring-closure'),
                 ('F/C=C/C%11%11', 'self-ring-closure'), ('[,^1:0]', 'fuzz-with-cx-radical')]
