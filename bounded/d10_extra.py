"""Extra domains and the shared contract for C10 (coverage audit): boundary values of every field of the pack layout, traversal classes
(atom order != number order, neighbour insertion order shuffled), stereo families, keywords, limits, edits.  Workers call
`env.setup(pyx=True)` first; everything here imports chython lazily.

Contract `judge` (taken from the statement of C10, nothing else):
  layout    pack(compressed=False) equals the independent reference writer (oracles/o10_layout.py), bit for bit
  roundtrip unpack(pack(m)) has the same atom numbers/order, elements, isotopes, charges, radicals, hydrogen counts, neighbour order,
            bond orders, atom and bond stereo labels; one shared bond object per pair; atoms and adjacency in the same order
  xy        coordinates are the half-precision truncation
  length    pack_len == atom count; _return_pack_length == number of bytes of the pack
  repack    pack(unpack(pack(m))) == pack(m); pack(m.copy()) == pack(m)
"""
import itertools
import math

ORDERS = (1, 2, 3, 4, 8)
NUMS = (1, 2, 15, 16, 17, 255, 256, 257, 0x555, 0xaaa, 2047, 2048, 2049, 0xf0f, 0x0f0, 0xff0, 4094, 4095)


def view(m):
    return ([(n, type(a).__name__, a.atomic_number, a.isotope, a.charge, a.is_radical, a.implicit_hydrogens, a.stereo) for n, a in m._atoms.items()],
            [(n, [(k, b.order, b.stereo) for k, b in v.items()]) for n, v in m._bonds.items()])


def first_diff(va, vb):
    if len(va[0]) != len(vb[0]):
        return f'{len(va[0])} atoms -> {len(vb[0])} atoms'
    for x, y in zip(va[0], vb[0]):
        if x != y:
            return f'atom {x} -> {y}'
    for x, y in zip(va[1], vb[1]):
        if x != y:
            return f'neighbours {x} -> {y}'
    return 'same'


def branched_bis_double_atoms(m):
    """atoms with at least three neighbours of which at least two are joined by a double bond (structure only)"""
    return {n for n, nb in m._bonds.items() if len(nb) >= 3 and sum(1 for b in nb.values() if b.order == 2) >= 2}


def label_diff_confined_to(ba, bb, hubs):
    """the two adjacency views differ only in the stereo label of double bonds that have an end in `hubs`"""
    if len(ba) != len(bb):
        return False
    for (n, xs), (k, ys) in zip(ba, bb):
        if n != k or len(xs) != len(ys):
            return False
        for (a, o1, s1), (b, o2, s2) in zip(xs, ys):
            if a != b or o1 != o2:
                return False
            if s1 != s2 and not (o1 == 2 and (n in hubs or a in hubs)):
                return False
    return True


def judge(m, tag, wit=None, *, labels=True, smiles_eq=False, copy=True, layout=True):
    """all contracts of the module docstring on one molecule; returns a list of (key, what, witness)"""
    from chython.containers import MoleculeContainer
    from oracles import o10_layout as L
    wit = dict(wit or {}, tag=tag)
    out = []
    try:
        raw = m.pack(compressed=False)
    except Exception as e:
        return [(f'pack-exc:{type(e).__name__}@{tag}', f'pack raised {type(e).__name__}: {e} for {tag}', wit)]
    ref = L.encode(m) if layout else raw
    if raw != ref:
        names = ('header', 'atom block', 'connection table', 'bond orders', 'cis/trans block')
        try:
            diff = [n for n, a, b in zip(names, L.sections(raw), L.sections(ref)) if a != b] or [f'length {len(raw)} vs {len(ref)}']
        except Exception:
            diff = ['unreadable']
        out.append((f'layout@{tag}', f'pack bytes differ from the published layout in {diff} for {tag}', dict(wit, got=raw.hex()[:400], expected=ref.hex()[:400])))
    try:
        r = MoleculeContainer.unpack(raw, compressed=False, skip_labels_calculation=not labels, _return_pack_length=True)
        u, ln = r
    except Exception as e:
        out.append((f'unpack-exc:{type(e).__name__}@{tag}', f'unpack raised {type(e).__name__}: {e} for {tag}', wit))
        return out
    if ln != len(raw):
        out.append((f'pack-length@{tag}', f'_return_pack_length gives {ln}, the pack has {len(raw)} bytes ({tag})', wit))
    va, vb = view(m), view(u)
    if va != vb:
        # recorded family (decided from the input structure, not from the failure): the format keys a cis/trans record by its two terminal atoms,
        # which is ambiguous when TWO double bonds meet at a branched atom (>= 3 neighbours; valence-invalid, but accepted by pack(check=True)).
        # Only a difference confined to the cis/trans labels of double bonds at such an atom belongs to it; anything else keeps its own key.
        hubs = branched_bis_double_atoms(m)
        if hubs and va[0] == vb[0] and label_diff_confined_to(va[1], vb[1], hubs):
            out.append(('roundtrip:cis-trans-label@two-double-bonds-at-a-branched-atom',
                        f'unpack(pack(m)) moves a cis/trans label between the double bonds of branched atom(s) {sorted(hubs)} for {tag}: {first_diff(va, vb)}',
                        dict(wit, diff=first_diff(va, vb), hubs=sorted(hubs))))
        else:
            out.append((f'roundtrip@{tag}', f'unpack(pack(m)) differs from m for {tag}: {first_diff(va, vb)}', dict(wit, diff=first_diff(va, vb))))
        return out
    if list(u._atoms) != list(u._bonds):
        out.append((f'adjacency-order@{tag}', 'atoms and adjacency of the unpacked molecule are ordered differently', wit))
    for (n, a), b in zip(m._atoms.items(), u._atoms.values()):
        if (b.x, b.y) != (L.half_trunc(a.x), L.half_trunc(a.y)):
            out.append((f'xy@{tag}', f'coordinates of atom {n} are not the half-precision truncation: {(a.x, a.y)} -> {(b.x, b.y)} ({tag})', dict(wit, atom=n)))
            break
    try:
        pl = MoleculeContainer.pack_len(raw, compressed=False)
    except Exception as e:
        pl = f'{type(e).__name__}: {e}'
    if pl != len(m._atoms):
        out.append((f'pack_len@{tag}', f'pack_len gives {pl}, the molecule has {len(m._atoms)} atoms ({tag})', wit))
    if any(u._bonds[a][b] is not u._bonds.get(b, {}).get(a) for a in u._bonds for b in u._bonds[a]):
        out.append((f'shared-bond@{tag}', 'unpacked adjacency does not share one bond object per pair', wit))
    try:
        again = u.pack(compressed=False)
    except Exception as e:
        again = f'{type(e).__name__}: {e}'
    # a negative coordinate below the smallest half value is written as negative zero, which reads back as -0.0 == 0.0 and is written as
    # plain zero the second time: bytes of the second pack are compared with the layout of the decoded molecule in that case
    negzero = any(math.copysign(1., L.half_trunc(v)) < 0 and L.half_trunc(v) == 0 for a in m._atoms.values() for v in (a.x, a.y))
    if negzero and layout:
        try:
            raw2 = L.encode(u)
        except Exception:
            raw2 = None
    else:
        raw2 = raw
    if again != raw2:
        out.append((f'repack@{tag}', f'pack(unpack(pack(m))) differs from pack(m) for {tag}', wit))
    if copy:
        try:
            cp = m.copy().pack(compressed=False)
        except Exception as e:
            cp = f'{type(e).__name__}: {e}'
        if cp != raw:
            out.append((f'copy@{tag}', f'pack(m.copy()) differs from pack(m) for {tag}', wit))
    if smiles_eq and labels:
        sa = str(m)
        try:
            sb = str(u)
        except Exception as e:
            sb = f'{type(e).__name__}: {e}'
        if sa != sb:
            out.append((f'smiles@{tag}', f'canonical string changes over the round trip: {sa} -> {sb}', dict(wit, before=sa, after=sb)))
    return out


# ---------------------------------------------------------------------------------------------------------------- builders

def atom(z, isotope=None, charge=0, radical=False, h=None, x=0., y=0., stereo=None):
    from chython.periodictable import Element
    a = Element.from_atomic_number(z)()
    a._isotope, a._charge, a._is_radical, a._implicit_hydrogens, a._stereo = isotope, charge, radical, h, stereo
    a.x, a.y = x, y
    return a


def graph(atoms, bonds):
    """atoms: [(number, Element)], bonds: [(n, m, order)] in insertion order; no structure fixing (fields stay as given)"""
    from chython.containers import MoleculeContainer
    m = MoleculeContainer()
    for n, a in atoms:
        m.add_atom(a, n, _skip_calculation=True)
    for n, k, o in bonds:
        m.add_bond(n, k, o, _skip_calculation=True)
    m._changed = None
    m.calc_labels()
    return m


def isotope_options(z):
    from chython.periodictable import Element
    a = Element.from_atomic_number(z)()
    tab = set(a.isotopes_masses) | set(a.isotopes_distribution)
    ends = {a.mdl_isotope - 15, a.mdl_isotope + 15}          # both ends of the 5-bit window
    return [None] + sorted(x for x in tab | ends if x > 0), tab, a.mdl_isotope


def field_molecules(z, r):
    """(tag, molecule): every isotope option of element z, every charge x hydrogen x radical combination, single atoms numbered 1 / 4095"""
    isos, tab, ref = isotope_options(z)
    hs = (0, 1, 2, 3, 4, 5, 6, None)
    nums = r.sample(range(2, 4095), len(isos))
    yield f'fields:isotopes:Z={z}', graph([(n, atom(z, i, r.randint(-4, 4), r.random() < .5, r.choice(hs))) for n, i in zip(nums, isos)], [])
    combos = list(itertools.product(range(-4, 5), hs, (False, True)))
    nums = [1, 4095] + r.sample(range(2, 4095), len(combos) - 2)
    r.shuffle(nums)
    yield f'fields:charge-h-radical:Z={z}', graph([(n, atom(z, r.choice(isos), c, rad, h)) for n, (c, h, rad) in zip(nums, combos)], [])
    for n in (1, 4095):
        yield f'fields:single-atom-{n}:Z={z}', graph([(n, atom(z, r.choice(isos), r.randint(-4, 4), r.random() < .5, r.choice(hs)))], [])


def chain(orders, nums=None, atom_order=None, bond_order=None, r=None):
    n = len(orders) + 1
    nums = list(nums or range(1, n + 1))
    idx = list(atom_order or range(n))
    hs = (0, 1, 2, 3, None)
    atoms = [(nums[i], atom(6, h=hs[i % 5] if r is None else r.choice(hs))) for i in idx]
    bonds = [(nums[i], nums[i + 1], orders[i]) for i in (bond_order or range(n - 1))]
    if r is not None:
        bonds = [(b, a, o) if r.random() < .5 else (a, b, o) for a, b, o in bonds]
    return graph(atoms, bonds)


def order_period_molecules(r, max_bonds=17):
    """every bond order in every position of the 3-bit stream (period 8, all tail lengths), first with the natural traversal (position in
    the chain == position in the stream), then with shuffled numbers / atom order / bond insertion order"""
    for ln in range(1, max_bonds + 1):
        for o in ORDERS:
            yield f'orders:uniform:{ln}x{o}', chain([o] * ln)
        for p in range(ln):
            for o in ORDERS:
                base = ORDERS[(ORDERS.index(o) + 1 + p) % 5]
                seq = [base] * ln
                seq[p] = o
                yield f'orders:{ln}:pos{p}={o}/{base}', chain(seq)
        for t in range(3):
            seq = [r.choice(ORDERS) for _ in range(ln)]
            nums = r.sample(NUMS, ln + 1) if ln + 1 <= len(NUMS) else r.sample(range(1, 4096), ln + 1)
            ao = list(range(ln + 1))
            bo = list(range(ln))
            r.shuffle(ao)
            r.shuffle(bo)
            yield f'orders:shuffled:{ln}:{t}:{"".join(map(str, seq))}', chain(seq, nums, ao, bo, r)


def star_molecules(r):
    """0..15 neighbours, centre first / last / in the middle of the atom order, boundary atom numbers in both halves of the 12-bit pairs"""
    for k in range(16):
        for where in ('first', 'last', 'middle'):
            nums = r.sample(NUMS, k + 1) if k + 1 <= len(NUMS) else r.sample(range(1, 4096), k + 1)
            c, leaves = nums[0], nums[1:]
            order = {'first': [c] + leaves, 'last': leaves + [c], 'middle': leaves[:k // 2] + [c] + leaves[k // 2:]}[where]
            atoms = [(n, atom(78 if n == c else 17, h=0)) for n in order]
            bl = [(c, x, ORDERS[i % 5]) if i % 2 else (x, c, ORDERS[i % 5]) for i, x in enumerate(leaves)]
            r.shuffle(bl)
            yield f'star:{k}:{where}', graph(atoms, bl)
    # two hubs with 15 neighbours each (K2,15 minus nothing) and the complete graph on 16 atoms (every atom has 15 neighbours)
    nums = r.sample(range(1, 4096), 17)
    bl = [(h, x, ORDERS[(i + j) % 5]) for j, h in enumerate(nums[:2]) for i, x in enumerate(nums[2:])]
    r.shuffle(bl)
    order = nums[:]
    r.shuffle(order)
    yield 'star:two-hubs-15', graph([(n, atom(26 if n in nums[:2] else 8, h=0)) for n in order], bl)


def number_molecules(r):
    """pairs of boundary atom numbers in both halves of a 24-bit pair of the connection table and of a cis/trans record"""
    from chython import smiles
    for a in NUMS:
        for b in NUMS:
            if a == b:
                continue
            c, d = [x for x in (3, 4, 5, 6) if x not in (a, b)][:2]
            # a-b bond: a's neighbour list is [b], b's is [a, ...]: each number appears in an odd and an even slot of the table
            yield f'numbers:pair:{a}-{b}', graph([(a, atom(6, h=3)), (b, atom(6, h=2)), (c, atom(8, h=1))], [(a, b, 1), (b, c, 1)])
            for s in (True, False):
                m = smiles('CC=CC')
                m.remap({1: a, 2: c, 3: d, 4: b})
                m._bonds[c][d]._stereo = s
                m.flush_cache()
                yield f'numbers:cis-trans-terminals:{a}/{b}:{int(s)}', m


COORDS = [0., -0., 5e-324, -5e-324, 2. ** -26, -2. ** -26, 2. ** -25 * (1 - 2 ** -52), 2. ** -25, -2. ** -25, 2. ** -25 * 1.5, -2. ** -25 * 1.5,
          2. ** -24 * (1 - 2 ** -52), 2. ** -24, -2. ** -24, 2. ** -24 * 1.999, 2. ** -23, 3 * 2. ** -24, 1023 * 2. ** -24, -1023 * 2. ** -24,
          2. ** -14 * (1 - 2 ** -52), 2. ** -14, -2. ** -14, 2. ** -14 * (1 + 2 ** -10), 2. ** -14 * (1 + 2 ** -11), 2. ** -14 * (2 - 2 ** -10),
          2. ** -13, .1, -.1, 1 / 3, .5, 1., -1., 1 + 2. ** -10, 1 + 2. ** -11, 1 + 2. ** -11 + 2. ** -12, 1 + 2. ** -10 - 2. ** -40, -(1 + 2. ** -11),
          2 - 2. ** -10, 2 - 2. ** -11, 2 - 2. ** -52, 2., 3.14159, -2.71828, 1000.5, -1000.5, 2047.9999, 2048., 32768., 65503.9, 65504., -65504.,
          65519.99, 65520., -65520., 65535.99, -65535.99, 65536., -65536., 65536.1, 1e5, -1e5, 1e10, 1e300, -1e300, float('inf'), -float('inf')]


def coordinate_molecules(r):
    vals = COORDS
    atoms = []
    for i, v in enumerate(vals):
        atoms.append((i + 1, atom(6, h=4, x=v, y=vals[-1 - i])))
    yield 'coords:boundaries', graph(atoms, [])
    for t in range(4):
        atoms = []
        for i in range(200):
            e = r.randint(-27, 17)
            atoms.append((i + 1, atom(7, h=3, x=r.choice((1, -1)) * (r.random() + 1) * 2. ** e, y=r.choice((1, -1)) * (1 + r.randrange(2048) / 2048 + r.choice((0, 2. ** -30, -2. ** -30))) * 2. ** e)))
        yield f'coords:seeded:{t}', graph(atoms, [])


STEREO_SKELETONS = [
    'CC=CC', 'CC=C=CC', 'CC=C=C=CC', 'CC=C=C=C=CC', 'CC=C=C=C=C=CC', 'CC=C=C=C=C=C=CC', 'CC=C=C=C=C=C=C=CC',       # cumulenes of every length 1..7
    'FC(Cl)=CC', 'FC(Cl)=C=C(Br)C', 'FC(Cl)=C=C=C(Br)I', 'CC=NO', 'CN=NC', 'CC(N)=NO', 'CC=CC=CC', 'CC=CC=CC=CC', 'CC=CC=C=CC',
    'C1=CCCCCCC1', 'C1CCCCC=CCCCC1', 'C1CCCC=C=CCCC1', 'C1CCCCC=C=C=CCCCCC1', 'C1CCCCC=C=C=C=CCCCCC1', 'CC1CCCCC(=CC)CC1', 'CC=C1CCC(=CC)CC1',
    'CC(F)Cl', 'CC(F)(Cl)Br', 'CC(F)C(C)Cl', 'C1CC(C)CCC1C', 'CS(=O)CC', 'CP(=O)(O)F', 'C[N+](CC)(CCC)CCCC', '[H]C(F)(Cl)Br', '[H]C(F)=CCl',
    'CC(F)C=CC(Cl)C', 'CC(F)C=C=CC(Cl)C', 'C[Si](F)(Cl)Br', 'CC(O)C(=CC)C(C)O', 'C1CC2CCC1C2', 'CC12CCC(CC1)C2', 'OC1C(O)C(O)C(O)C(O)C1O',
    'CC=CC.CC=C=CC', 'CC=CC.[Na+].CC(F)Cl', 'C1=CCCCCCC1.C1=CCCCCCC1', 'c1ccccc1C=CC', 'CC=Cc1ccc(cc1)C=C=CC',
]


def stereo_molecules(r, per_skeleton=12):
    """labels are attached to every stereogenic element of the skeleton (None / True / False each; exhaustive up to 3 elements, seeded above);
    every labelled molecule also with shuffled atom / bond insertion order and boundary atom numbers"""
    from chython import smiles
    for smi in STEREO_SKELETONS:
        base = smiles(smi)
        tet = list(base.stereogenic_tetrahedrons)
        alle = list(base.stereogenic_allenes)
        ct = [base._stereo_cis_trans_centers[k[0]] for k in base.stereogenic_cis_trans]
        els = [('a', n) for n in tet + alle] + [('b', nm) for nm in ct]
        if len(els) <= 3:
            assigns = list(itertools.product((None, True, False), repeat=len(els)))
        else:
            assigns = [tuple(r.choice((None, True, False, True, False)) for _ in els) for _ in range(per_skeleton)]
            assigns += [(True,) * len(els), (False,) * len(els)]
        for asg in assigns:
            if not any(x is not None for x in asg):
                continue
            m = base.copy()
            for (kind, k), s in zip(els, asg):
                if kind == 'a':
                    m._atoms[k]._stereo = s
                else:
                    m._bonds[k[0]][k[1]]._stereo = s
            m.flush_cache()
            code = ''.join('-' if s is None else str(int(s)) for s in asg)
            kinds = ('T' if tet else '') + ('A' if alle else '') + ('C' if ct else '')
            yield f'stereo:{smi}:{code}', m, kinds
            v = shuffled(m, r)
            nums = list(v)
            v.remap(dict(zip(nums, r.sample(NUMS, len(nums)) if len(nums) <= len(NUMS) else r.sample(range(1, 4096), len(nums)))))
            yield f'stereo:{smi}:{code}:shuffled', v, kinds


def big_molecules(thorough):
    """atom-count / record-count boundaries of the 12-bit header fields"""
    from chython.containers import MoleculeContainer
    # 4095 atoms, numbers 1..4095, a chain with every bond order (4094 bonds)
    yield 'big:chain-4095', chain([ORDERS[i % 5] for i in range(4094)]), True
    # more than 255 cis/trans records (the count straddles the byte boundary of the header): 300 and 4095//4 components C/C=C/C
    for k in (255, 256, 300) + ((1023,) if thorough else ()):
        m = MoleculeContainer()
        for i in range(k):
            a = [m.add_atom('C', _skip_calculation=True) for _ in range(4)]
            m.add_bond(a[0], a[1], 1, _skip_calculation=True)
            m.add_bond(a[1], a[2], 2, _skip_calculation=True)
            m.add_bond(a[2], a[3], 1, _skip_calculation=True)
        m._changed = None
        for n, a in m._atoms.items():
            a._implicit_hydrogens = 3 if n % 4 in (1, 0) else 1
        m.calc_labels()
        for i in range(k):
            m._bonds[4 * i + 2][4 * i + 3]._stereo = bool(i % 3)
        m.flush_cache()
        yield f'big:cis-trans-records-{k}', m, True
    if thorough:
        # the densest molecule of the format: 4095 atoms, 15 neighbours each (one with 14): 30712 bonds; labels are skipped (no ring perception)
        n = 4095
        m = MoleculeContainer()
        for i in range(n):
            m.add_atom(atom(6, h=0), i + 1, _skip_calculation=True)
        at, bd = m._atoms, m._bonds
        from chython.containers.bonds import Bond
        k = 0
        for i in range(n):
            for d in range(1, 8):
                j = (i + d) % n
                b = Bond(ORDERS[k % 5])
                b._in_ring = True
                k += 1
                bd[i + 1][j + 1] = bd[j + 1][i + 1] = b
        for i in range(n // 2):
            j = i + n // 2 + 1
            if j < n and len(bd[i + 1]) < 15 and len(bd[j + 1]) < 15:
                b = Bond(ORDERS[k % 5])
                b._in_ring = True
                k += 1
                bd[i + 1][j + 1] = bd[j + 1][i + 1] = b
        m._changed = None
        m.flush_cache()
        yield 'big:dense-4095x15', m, False


def shuffled(m, r):
    """fresh container with the same atoms / bonds / raw labels, atoms and bonds inserted in a seeded random order (either direction)"""
    from chython.containers import MoleculeContainer
    new = MoleculeContainer()
    nodes = list(m._atoms)
    edges = [(a, b, bd) for a, b, bd in m.bonds()]
    r.shuffle(nodes)
    r.shuffle(edges)
    for n in nodes:
        new.add_atom(m._atoms[n].copy(full=True), n, _skip_calculation=True)
    for a, b, bd in edges:
        if r.random() < .5:
            a, b = b, a
        new.add_bond(a, b, bd.copy(full=True), _skip_calculation=True)
    new._changed = None
    new.calc_labels()
    return new


def judge_v0(m, tag, wit=None):
    """the version-0 reader: a pack written by the reference writer in the version-0 layout decodes to m (molecule reader, length helpers, dispatcher)"""
    from chython import unpach
    from chython.containers import MoleculeContainer
    from oracles import o10_layout as L
    wit = dict(wit or {}, tag=tag)
    data = L.encode(m, 0)
    out = []
    try:
        u, ln = MoleculeContainer.unpack(data, compressed=False, _return_pack_length=True)
        d = unpach(data, compressed=False)
        pl = MoleculeContainer.pack_len(data, compressed=False)
    except Exception as e:
        return [(f'v0-exc:{type(e).__name__}@{tag}', f'a version-0 pack of {tag} fails to decode: {type(e).__name__}: {e}', wit)]
    if view(u) != view(m) or view(d) != view(m):
        out.append((f'v0-roundtrip@{tag}', f'version-0 pack of {tag} decodes differently: {first_diff(view(m), view(u))}', wit))
    if ln != len(data) or pl != len(m._atoms):
        out.append((f'v0-length@{tag}', f'version-0 pack of {tag}: pack length {ln} (true {len(data)}), pack_len {pl} (true {len(m._atoms)})', wit))
    return out
