"""Domain helper of the C04 bounded stand-in (checks/b04.py): whole molecules *without* a validity filter.

A record is plain and picklable:

    {'atoms': [(symbol, isotope|None, charge, radical), ...],          # index = node
     'bonds': [(i, j, order), ...],                                    # orders 1-3, 8 ("any", only to a metal component)
     'numbers': [atom number of node i],                               # gaps, descending, > 999, shuffled
     'node_order': [...], 'edge_order': [...],                         # insertion order
     'public': bool}                                                   # built through add_atom/add_bond *with* their own recalculation

Unlike bounded/d01_molgen.py (valence-valid molecules only) the decorations here are unconstrained: over-valent atoms, charged and radical
atoms anywhere in the molecule, isotopes, explicit hydrogens, second components (ions, radicals, metals, isotopic water) - the input
classes `check_valence()` and the derived totals have to get right on whole molecules.  All sampled choices are seeded (VERIF_SEED).
"""
from bounded import domains as D

SKELETON = ('C', 'C', 'C', 'C', 'N', 'N', 'O', 'S', 'P', 'B', 'Si', 'Se', 'As')
LEAVES = ('C', 'N', 'O', 'S', 'F', 'Cl', 'Br', 'I', 'H', 'H', 'O', 'C')
# isotopes tabulated by the library *and* by RDKit (C18's known gaps are avoided on purpose)
ISOTOPES = {'H': (2, 3), 'C': (13, 14, 12), 'N': (15,), 'O': (18, 17), 'F': (18,), 'Cl': (35, 37), 'Br': (79, 81), 'I': (125, 131),
            'S': (34, 35), 'P': (32,), 'B': (10, 11), 'Si': (29,), 'Se': (80,)}
COMPONENTS = (
    ([('Na', None, 1, False)], []), ([('Cl', None, -1, False)], []), ([('Cl', 37, -1, False)], []), ([('Fe', None, 2, False)], []),
    ([('O', None, 0, False)], []), ([('O', None, -2, False)], []), ([('H', None, 1, False)], []), ([('H', 2, 1, False)], []),
    ([('H', None, -1, False)], []), ([('H', None, 0, False), ('H', None, 0, False)], [(0, 1, 1)]),
    ([('C', None, 0, True)], []), ([('O', None, 0, True), ('O', None, 0, True)], [(0, 1, 1)]), ([('N', None, 0, True), ('O', None, 0, False)], [(0, 1, 2)]),
    ([('H', 2, 0, False), ('O', None, 0, False), ('H', 2, 0, False)], [(0, 1, 1), (1, 2, 1)]),
    ([('C', 13, 0, False)], []), ([('N', None, 1, False)], []), ([('C', None, 0, False), ('O', None, -1, False)], [(0, 1, 1)]),
    ([('N', None, 1, False), ('O', None, -1, False), ('O', None, 0, False), ('O', None, -1, False)], [(0, 1, 1), (0, 2, 2), (0, 3, 1)]),
)
METALS = ('Fe', 'Pd', 'Cu', 'Li')


def numbering(n, r):
    """seeded atom numbers for n nodes: the input class "atom numbers are not 1..N in order" """
    kind = r.choice(('seq', 'desc', 'gaps', 'big', 'shuffled', 'gaps'))
    if kind == 'seq':
        return list(range(1, n + 1))
    if kind == 'desc':
        return list(range(n, 0, -1))
    if kind == 'big':
        base = r.choice((999, 1000, 4094, 65530))
        nums = list(range(base, base + n))
        r.shuffle(nums)
        return nums
    if kind == 'shuffled':
        nums = list(range(1, n + 1))
        r.shuffle(nums)
        return nums
    return r.sample(range(1, 40 * n + 3000), n)


# plausible mode: neutral elements able to carry a given number of skeleton bonds (normal valence >= degree)
BY_DEGREE = {0: SKELETON + LEAVES, 1: SKELETON + LEAVES, 2: ('C', 'C', 'C', 'N', 'O', 'S', 'P', 'B', 'Si', 'Se'), 3: ('C', 'C', 'N', 'P', 'B', 'Si'),
             4: ('C', 'C', 'Si')}
NORMAL = {'C': 4, 'N': 3, 'O': 2, 'S': 2, 'P': 3, 'B': 3, 'Si': 4, 'Se': 2, 'As': 0, 'F': 1, 'Cl': 1, 'Br': 1, 'I': 1, 'H': 1}
# plausible charged / radical states: (element, charge, radical) -> change of the normal valence
ONIUM = {('N', 1, False): 1, ('O', 1, False): 1, ('S', 1, False): 1, ('P', 1, False): 1, ('B', -1, False): 1, ('C', -1, False): -1, ('C', 1, False): -1,
         ('N', -1, False): -1, ('O', -1, False): -1, ('S', -1, False): -1, ('C', 0, True): -1, ('N', 0, True): -1, ('O', 0, True): -1}


def decorate(g, r):
    """seeded decoration.  About half of the calls are *plausible* (element chosen for its degree, bond orders raised only while both
    ends have free valence, onium / -ate / carbanion / radical states with the matching valence), the rest unconstrained (valence errors)."""
    nodes = list(g.nodes)
    deg = dict(g.degree())
    pos = {v: i for i, v in enumerate(nodes)}
    plausible = r.random() < .55
    atoms = []
    free = {}
    for v in nodes:
        iso, ch, rad = None, 0, False
        if plausible:
            sym = r.choice(BY_DEGREE[min(deg[v], 4)])
            cap = NORMAL[sym]
            if r.random() < .2:
                st = r.choice(sorted(k for k in ONIUM if k[0] == sym) or [None])
                if st is not None and cap + ONIUM[st] >= deg[v]:
                    _, ch, rad = st
                    cap += ONIUM[st]
            if cap < deg[v]:
                sym, cap = 'C', 4
            free[v] = cap - deg[v]
        else:
            sym = r.choice(LEAVES) if deg[v] <= 1 and r.random() < .6 else r.choice(SKELETON)
            x = r.random()
            if x < .12:
                ch = r.choice((-1, 1))
            elif x < .15:
                ch = r.choice((-2, 2, -1, 1))
            elif x < .17:
                ch = r.choice((-4, -3, 3, 4))
            if r.random() < .06:
                rad = True
        if r.random() < .1 and sym in ISOTOPES:
            iso = r.choice(ISOTOPES[sym])
        atoms.append((sym, iso, ch, rad))
    bonds = []
    for a, b in g.edges:
        x = r.random()
        o = 3 if x < .06 else 2 if x < .3 else 1
        if plausible:
            o = min(o, 1 + free[a], 1 + free[b])
            free[a] -= o - 1
            free[b] -= o - 1
        elif 'H' in (atoms[pos[a]][0], atoms[pos[b]][0]) and r.random() < .9:
            o = 1
        bonds.append((pos[a], pos[b], o))
    return atoms, bonds


def add_component(atoms, bonds, comp):
    ca, cb = comp
    k = len(atoms)
    return atoms + list(ca), bonds + [(a + k, b + k, o) for a, b, o in cb]


def records(max_nodes, trials, tag='d04'):
    """seeded unconstrained decorations of every connected atlas graph with <= max_nodes nodes (degree <= 4)"""
    out = []
    seen = set()
    for g in D.atlas(max_nodes):
        r = D.rnd(f'{tag}:{g.name}')
        for t in range(trials):
            atoms, bonds = decorate(g, r)
            x = r.random()
            if x < .3:
                atoms, bonds = add_component(atoms, bonds, r.choice(COMPONENTS))
                if r.random() < .3:
                    atoms, bonds = add_component(atoms, bonds, r.choice(COMPONENTS))
            elif x < .4:   # a metal bound by an "any" bond (order 8): must not count for the hydrogens of its neighbour
                k = len(atoms)
                atoms = atoms + [(r.choice(METALS), None, r.choice((0, 0, 2)), False)]
                bonds = bonds + [(r.randrange(k), k, 8)]
            key = (tuple(atoms), tuple(bonds))
            if key in seen:
                continue
            seen.add(key)
            n = len(atoms)
            no = list(range(n))
            r.shuffle(no)
            eo = list(range(len(bonds)))
            r.shuffle(eo)
            out.append({'atoms': atoms, 'bonds': bonds, 'numbers': numbering(n, r), 'node_order': no, 'edge_order': eo,
                        'public': r.random() < .5})
    return out


def describe(rec):
    """compact text identifying the constitution of a record (key of a violation; independent of numbering and of the library)"""
    a = ';'.join(f'{"" if i is None else i}{s}{"" if not c else format(c, "+d")}{"*" if rd else ""}' for s, i, c, rd in rec['atoms'])
    b = ','.join(f'{i}{"-=#~"[o - 1] if o < 4 else "~"}{j}' for i, j, o in rec['bonds'])
    return f'{a}|{b}'


def build(rec):
    """real molecule of a record.  public=True: every add_atom / add_bond call runs the library's own incremental recalculation
    (fix_structure over the changed atoms); public=False: bulk construction + one fix_structure()."""
    from chython.containers import MoleculeContainer
    from chython.periodictable import Element
    m = MoleculeContainer()
    num = rec['numbers']
    skip = not rec['public']
    atoms = rec['atoms']
    for v in rec['node_order']:
        sym, iso, ch, rad = atoms[v]
        m.add_atom(Element.from_symbol(sym)(iso, charge=ch, is_radical=rad), num[v], _skip_calculation=skip)
    bonds = rec['bonds']
    for i in rec['edge_order']:
        a, b, o = bonds[i]
        m.add_bond(num[a], num[b], o, _skip_calculation=skip)
    if skip:
        m.fix_structure()
    return m


def record_of(m, r, public=None):
    """record of an existing (Kekule) molecule under a fresh seeded numbering / insertion order"""
    idx = {n: i for i, n in enumerate(m._atoms)}
    atoms = [(a.atomic_symbol, a.isotope, a.charge, a.is_radical) for a in m._atoms.values()]
    bonds = [(idx[a], idx[b], bd.order) for a, b, bd in m.bonds()]
    n = len(atoms)
    no = list(range(n))
    r.shuffle(no)
    eo = list(range(len(bonds)))
    r.shuffle(eo)
    return {'atoms': atoms, 'bonds': bonds, 'numbers': numbering(n, r), 'node_order': no, 'edge_order': eo,
            'public': (r.random() < .5) if public is None else public}
