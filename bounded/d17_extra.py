"""C17 audit extension: input classes the corpus (drug-like, connected, no isotopes, no explicit H) and the decorated atlas do not contain."""

# multi-component, isotopes (also on heteroatoms), explicit hydrogens, radicals, multiply charged atoms, atoms of one element in several
# charge / isotope states, metals, high fragment multiplicities (symmetric), cages with many simple paths, long chains, big rings
SPECIAL_SMILES = [
    'C', '[H][H]', '[H+]', '[Na+].[Cl-]', 'CC(=O)[O-].[Na+]', '[NH4+].[NH4+].[O-]S(=O)(=O)[O-]', 'CCO.CCO.CCO', 'C.C.C.C.C.C',
    'c1ccccc1.c1ccccc1.O', '[K+].[K+].[O-]C(=O)C([O-])=O', '[Ca+2].[Cl-].[Cl-]', '[Fe+3].[Cl-].[Cl-].[Cl-]', '[Al+3]', '[O-2].[Mg+2]',
    '[2H]C([2H])([2H])O', '[13CH4]', '[13CH3][12CH2][14CH3]', '[13CH3]C', '[18OH2]', 'C[18OH]', '[15NH3]', '[15NH2]C(=O)N', 'N[15N]=O',
    '[2H]O[2H]', '[3H]C', '[H]C([H])([H])[H]', '[H]OC([H])([H])C', '[H]c1ccccc1', '[2H]c1ccc([2H])cc1', '[35Cl]C[37Cl]',
    '[CH3]', '[CH2]C', 'C[O]', '[CH2]C[CH2]', 'C[N+](C)(C)C', '[NH3+]CC([O-])=O', '[O-][N+](=O)c1ccccc1', 'C[S+](C)[O-]', '[O-]P([O-])([O-])=O',
    '[N-]=[N+]=N', '[C-]#[O+]', 'C[N+]#[C-]', '[Cu]', '[Pt](Cl)(Cl)(N)N', 'C[Si](C)(C)C', 'C[Sn](C)(C)C', 'B(O)(O)c1ccccc1', 'FC(F)(F)C(F)(F)F',
    'ClC(Cl)(Cl)Cl', 'BrCCBr', 'ICI', 'C[Se]C', 'c1cc[se]c1', 'O=[As](O)(O)O', 'C[Hg]C', '[Li]CCCC',
    'CC(C)(C)C', 'CC(C)(C)C(C)(C)C', 'Cc1c(C)c(C)c(C)c(C)c1C', 'c1ccc2cc3ccccc3cc2c1', 'c1cc2ccc3cccc4ccc(c1)c2c34',
    'C12C3C4C1C5C2C3C45', 'C1C2CC3CC1CC(C2)C3', 'C1CC2CCC1CC2', 'C12CC1C2', 'C1CC11CC1', 'C1CCC2(CC1)CCCCC2', 'C1OC11CO1', 'N1CC11CN1',
    'CCCCCCCCCCCCCCCC', 'C1CCCCCCCCCCC1', 'C1CCCCCCCCCCCCCCCCCCC1', 'C=CC=CC=CC=CC=C', 'C#CC#CC#C', 'C=C=C=C', 'OCC(O)C(O)C(O)C(O)CO',
    'c1ccc(cc1)-c1ccccc1', 'c1ccc(cc1)C(c1ccccc1)(c1ccccc1)c1ccccc1', 'C1=CC=CC=C1', 'C1=CC=C2C=CC=CC2=C1', 'c1cc[nH]c1', 'c1ccncc1', 'n1cnc2[nH]cnc2c1',
    'O=C1NC(=O)c2ccccc12', 'CC(=O)Oc1ccccc1C(O)=O', 'C[C@H](N)C(O)=O', 'C/C=C/C', 'C/C=C\\C', 'F[C@](Cl)(Br)I', 'OC[C@@H](O)[C@@H](O)C=O',
]


def atom_grid():
    """one molecule without bonds whose atoms are pairwise different in (isotope, element, charge, radical):
    every element 1..118 neutral; H, C, N, O, Fe in every charge -4..4; C, O, Cl, Fe with isotope labels, alone and combined with charge
    and radical; the radical of every element 1..20.  Within-molecule injectivity of the identifiers = injectivity on this table."""
    from chython.containers import MoleculeContainer
    from chython.periodictable import Element
    m = MoleculeContainer()
    spec = [(z, None, 0, False) for z in range(1, 119)]
    for z in (1, 6, 7, 8, 26):
        spec += [(z, None, c, False) for c in range(-4, 5) if c]
    for z, isos in ((1, (1, 2, 3)), (6, (12, 13, 14)), (8, (16, 17, 18)), (17, (35, 37)), (26, (54, 56, 57, 58))):
        for i in isos:
            spec += [(z, i, 0, False), (z, i, 1, False), (z, i, -1, False), (z, i, 0, True), (z, i, 1, True)]
    spec += [(z, None, 0, True) for z in range(1, 21)]
    spec += [(z, None, c, True) for z in (6, 7, 8) for c in (-1, 1, 2)]
    # numbers that collide when fields are summed or shifted into one another: (isotope 7, Z 6) vs (isotope 6, Z 7) are not real isotopes;
    # use charge / radical / Z neighbours instead: C+ vs N, N- vs C, O+ vs F, [C]. vs [C+]
    assert len(set(spec)) == len(spec)
    for z, i, c, rad in spec:
        n = m.add_atom(Element.from_atomic_number(z)(), _skip_calculation=True)
        a = m._atoms[n]
        a._isotope, a._charge, a._is_radical = i, c, rad
    m.flush_cache()
    m.calc_labels()
    return m, spec


def rebuild_ordered(m, nodes, edges, flip=False):
    """fresh container with the atoms / bonds of m inserted in the given order (cf. domains.rebuild)"""
    from chython.containers import MoleculeContainer
    from chython.containers.bonds import Bond
    new = MoleculeContainer()
    for n in nodes:
        a = m._atoms[n]
        x = type(a)(a.isotope, charge=a.charge, is_radical=a.is_radical, x=a.x, y=a.y, implicit_hydrogens=a.implicit_hydrogens, stereo=a.stereo)
        new.add_atom(x, n, _skip_calculation=True)
    for a, b, bd in edges:
        if flip:
            a, b = b, a
        nb = Bond(bd.order)
        nb._stereo = bd.stereo
        new.add_bond(a, b, nb, _skip_calculation=True)
    new.calc_labels()
    new._changed = None
    return new


def descending_gapped(m):
    """deterministic numbering variant: atom numbers descending along the old order, with gaps, all > 999, and reversed insertion order of
    atoms and bonds (both bond ends swapped): returns (molecule, map old -> new)"""
    nums = sorted(m)
    mp = {n: 1000 + 7 * (len(nums) - i) for i, n in enumerate(nums)}
    c = m.copy()
    c.remap(mp)
    nodes = list(c._atoms)[::-1]
    edges = [(a, b, bd) for a, b, bd in c.bonds()][::-1]
    return rebuild_ordered(c, nodes, edges, flip=True), mp


def cgr_pair(m, r):
    """a product-side partner of molecule m for m ^ partner: seeded bond-order change / bond cleavage / charge or radical change / new bond /
    lost atom.  Returns (partner, list of edits) - partner shares the atom numbers of m."""
    from chython.containers.bonds import Bond
    p = m.copy()
    edits = []
    bonds = [(a, b) for a, b, _ in p.bonds()]
    atoms = list(p)
    for _ in range(r.randint(1, 3)):
        t = r.randrange(6)
        if t == 0 and bonds:
            a, b = r.choice(bonds)
            o = p._bonds[a][b].order
            new = r.choice([x for x in (1, 2, 3) if x != o])
            p._bonds[a][b]._order = new
            edits.append(['order', a, b, new])
        elif t == 1 and bonds:
            a, b = bonds.pop(r.randrange(len(bonds)))
            del p._bonds[a][b], p._bonds[b][a]
            edits.append(['cleave', a, b])
        elif t == 2 and atoms:
            a = r.choice(atoms)
            p._atoms[a]._charge = c = r.choice((-1, 1, 2))
            edits.append(['charge', a, c])
        elif t == 3 and atoms:
            a = r.choice(atoms)
            p._atoms[a]._is_radical = True
            edits.append(['radical', a])
        elif t == 4 and len(atoms) > 2:
            a, b = r.sample(atoms, 2)
            if b not in p._bonds[a]:
                p._bonds[a][b] = p._bonds[b][a] = Bond(1)
                bonds.append((a, b))
                edits.append(['form', a, b])
        elif t == 5 and len(atoms) > 2:
            a = atoms.pop(r.randrange(len(atoms)))
            for b in list(p._bonds[a]):
                del p._bonds[b][a]
            del p._bonds[a], p._atoms[a]
            bonds = [e for e in bonds if a not in e]
            edits.append(['lose', a])
    p.flush_cache()
    p.calc_labels()
    p.flush_cache()
    return p, edits
