"""C12 coverage-audit extension: per-molecule contracts for the entry points / options / input classes checks/b12.py did not exercise.
All contracts come from the property statement (configurations denote what an independent toolkit / an independent geometric reading
derives from the same drawing; sign changes exactly on odd permutations / single-end exchange, wherever a hydrogen stands; labels only on
stereogenic centres).  Called from checks/b12._molecule_ (worker process); `out` is checks.b12._Out.

 api      add_atom_stereo / add_cis_trans_stereo with every neighbour order / hydrogen slot / both call directions / clean_cache=False:
          the stored label equals the one stored through the reference neighbours with the parity-corrected mark; a non-stereogenic
          centre / double bond gets no label.
 fixpoint fix_stereo() on an unchanged labelled molecule keeps every label and its value.
 edits    single operations OUTSIDE a transaction (delete_atom, delete_bond, add_atom+add_bond, substructure) and transactions at
          labelled tetrahedral centres / double-bond and allene ends: the label is kept exactly when the element stays stereogenic and the
          configuration is the one RDKit derives after the same edit (hydrogen <-> substituent replacement on an RWMol).
 wedges   one wedge / hash on EVERY bond of a centre (explicit hydrogens included, also drawn from the wrong end), written by an
          independent V2000 writer on RDKit coordinates: chython's reading == RDKit's reading of the same block; allenes (any number of
          substituents, hydrogens, longer odd cumulenes): == an independent 3D reading; _wedge_map on the same coordinates read back by
          the same two judges.
 ct2d     calculate_cis_trans_from_2d (reader option calc_cis_trans=True) on RDKit layouts and on layouts with one end mirrored: == RDKit's
          reading of the block (double bonds) and == an independent same-side test (also cumulenes of three double bonds).
 bridge   to_rdkit_molecule / from_rdkit_molecule keep the configuration (tetrahedral and simple cis/trans).
"""
import itertools

from oracles import o12_more as M
from oracles.o12_stereo import parity, rd_can

OK_SYMBOLS = {'C', 'N', 'O', 'S', 'F', 'Cl', 'Br', 'I', 'H', 'P', 'B', 'Si'}
Z = {'F': 9, 'Cl': 17, 'Br': 35, 'I': 53, 'C': 6, 'N': 7, 'O': 8, 'S': 16}


def _b12():
    from checks import b12
    return b12


def labels(m):
    return ({n: a.stereo for n, a in m.atoms() if a.stereo is not None},
            {frozenset((n, k)): b.stereo for n, k, b in m.bonds() if b.stereo is not None})


# ---- api ---------------------------------------------------------------------------------------------------------------------------
def api_contracts(base, E, skel, out, r, full):
    from chython.exceptions import NotChiral
    atoms, bonds = base._atoms, base._bonds
    for e in E:
        if e[0] == 't':
            n, envn = e[1], e[2]
            hs = [x for x in bonds[n] if atoms[x].atomic_number == 1]
            ref = (*envn, hs[0]) if len(envn) == 3 and hs else envn
            trials = [(p, parity(p, ref)) for p in itertools.permutations(ref)]
            if len(envn) == 4:   # three of four heavy neighbours name the order too (the fourth is implied)
                trials += [(p[:3], odd) for p, odd in trials]
            if not full and len(trials) > 12:
                trials = r.sample(trials, 12)
            bad = None
            for p, odd in trials:
                for mark in (True, False):
                    c = base.copy()
                    c.add_atom_stereo(n, p, mark, clean_cache=False)
                    d = base.copy()
                    d.add_atom_stereo(n, envn, mark ^ odd)
                    out.case(1)
                    if c._atoms[n].stereo is not d._atoms[n].stereo and bad is None:
                        bad = (p, mark, odd)
            out.keys.append(('api-perm', skel, n))
            if bad:
                p, mark, odd = bad
                out.v(f'api-perm:{skel}:{n}:{",".join(map(str, p))}', f'add_atom_stereo({n}, {p}, {mark}) stores another configuration than '
                      f'add_atom_stereo({n}, {envn}, {mark ^ odd}) although {p} is an {"odd" if odd else "even"} permutation of {ref}',
                      witness={'smiles': skel, 'atom': n, 'env': list(p), 'reference_env': list(envn), 'mark': mark})
            # clean_cache=False + explicit flush == default call (one sample)
            p, odd = trials[0]
            c = base.copy()
            c.add_atom_stereo(n, p, True, clean_cache=False)
            c.flush_cache()
            d = base.copy()
            d.add_atom_stereo(n, envn, True ^ odd)
            out.case(1)
            if str(c) != str(d):
                out.v(f'api-cache:{skel}:{n}', f'add_atom_stereo(..., clean_cache=False) + flush_cache() gives {c}, the default call {d}',
                      witness={'smiles': skel, 'atom': n, 'env': list(p)})
        else:
            ct = e[0] == 'c'
            r1, r2 = e[2]
            ends = []
            for (a, b), t in zip((e[3], e[4]), (e[1] if ct else e[5])):
                cand = [a]
                if b is not None:
                    cand.append(b)
                else:
                    cand += [x for x in bonds[t] if atoms[x].atomic_number == 1][:1]
                ends.append(cand)
            bad = None
            for nn in ends[0]:
                for nm in ends[1]:
                    for mark in (True, False):
                        exp_mark = mark ^ (nn != r1) ^ (nm != r2)
                        d = base.copy()
                        if ct:
                            n, m = e[1]
                            d.add_cis_trans_stereo(n, m, r1, r2, exp_mark)
                            i, j = d._stereo_cis_trans_centers[n]
                            want = d._bonds[i][j].stereo
                            got = []
                            for args in ((n, m, nn, nm), (m, n, nm, nn)):
                                c = base.copy()
                                c.add_cis_trans_stereo(*args, mark, clean_cache=False)
                                got.append(c._bonds[i][j].stereo)
                        else:
                            d.add_atom_stereo(e[1], (r1, r2), exp_mark)
                            want = d._atoms[e[1]].stereo
                            c = base.copy()
                            c.add_atom_stereo(e[1], (nn, nm), mark, clean_cache=False)
                            got = [c._atoms[e[1]].stereo]
                        out.case(len(got))
                        if any(g is not want for g in got) and bad is None:
                            bad = (nn, nm, mark, got, want)
            out.keys.append(('api-exchange', skel, str(e[1])))
            if bad:
                nn, nm, mark, got, want = bad
                out.v(f'api-exchange:{skel}:{e[1]}:{nn},{nm}', f'{"add_cis_trans_stereo" if ct else "add_atom_stereo"} for {e[1]} through the '
                      f'substituents ({nn}, {nm}) with mark {mark} stores {got}; through the reference substituents ({r1}, {r2}) with the '
                      f'exchange-corrected mark it stores {want}', witness={'smiles': skel, 'element': e[1], 'asked': [nn, nm], 'reference': [r1, r2],
                                                                        'mark': mark, 'call_directions': 2 if ct else 1}, native=got)
    # labels only on stereogenic elements: a non-chiral tetrahedron / double bond must not take a label
    ch_t, ch_c = set(base.chiral_tetrahedrons), set(base.chiral_cis_trans)
    for n, envn in base.stereogenic_tetrahedrons.items():
        if n not in ch_t:
            c = base.copy()
            try:
                c.add_atom_stereo(n, envn, True)
            except NotChiral:
                pass
            out.case(1, key=('api-notchiral', skel, n))
            if c._atoms[n].stereo is not None:
                out.v(f'api-notchiral:{skel}:{n}', f'add_atom_stereo stores a label on atom {n} of {skel} which is not in chiral_tetrahedrons',
                      witness={'smiles': skel, 'atom': n, 'env': list(envn)})
            break
    for (n, m), (n1, m1, _, _) in base.stereogenic_cis_trans.items():
        if (n, m) not in ch_c:
            c = base.copy()
            try:
                c.add_cis_trans_stereo(n, m, n1, m1, True)
            except NotChiral:
                pass
            out.case(1, key=('api-notchiral', skel, n, m))
            if any(b.stereo is not None for *_, b in c.bonds()):
                out.v(f'api-notchiral:{skel}:{n}-{m}', f'add_cis_trans_stereo stores a label on the double bond {n}..{m} of {skel} which is not in '
                      f'chiral_cis_trans', witness={'smiles': skel, 'bond': [n, m]})
            break


# ---- fixpoint ------------------------------------------------------------------------------------------------------------------------
def fixpoint_contract(m, out):
    c = m.copy()
    c.fix_stereo()
    out.case(1, key=('fix-stereo-fixpoint', str(m)))
    if labels(c) != labels(m):
        a, b = labels(m), labels(c)
        out.v(f'fix-stereo-fixpoint:{m}', f'fix_stereo() on the unchanged molecule {m} changes the labels: atoms {a[0]} -> {b[0]}, bonds '
              f'{ {tuple(sorted(k)): v for k, v in a[1].items()} } -> { {tuple(sorted(k)): v for k, v in b[1].items()} }',
              witness={'smiles': str(m)}, native=str(c))


# ---- edits ---------------------------------------------------------------------------------------------------------------------------
def _rd_edit(m, ops):
    """the edit done on an RDKit RWMol built from chython's own SMILES of m (explicit hydrogens kept, so indices = written order).
    ops: list of ('set', atom, symbol | 'H') | ('h2x', centre, symbol).  Returns RDKit's canonical SMILES after the edit."""
    from rdkit import Chem
    smi, order = m.__format__('', _return_order=True)
    p = Chem.SmilesParserParams()
    p.removeHs = False
    rm = Chem.MolFromSmiles(smi, p)
    if rm is None or rm.GetNumAtoms() != len(order):
        return None
    ix = {n: i for i, n in enumerate(order)}
    rw = Chem.RWMol(rm)
    for op in ops:
        if op[0] == 'set':
            a = rw.GetAtomWithIdx(ix[op[1]])
            a.SetAtomicNum(1 if op[2] == 'H' else Z[op[2]])
            a.SetFormalCharge(0)
            a.SetIsotope(0)
            a.SetNoImplicit(False)
            a.SetNumExplicitHs(0)
        else:
            rw = Chem.RWMol(Chem.AddHs(rw.GetMol()))
            c = rw.GetAtomWithIdx(ix[op[1]])
            h = next(x for x in c.GetNeighbors() if x.GetAtomicNum() == 1)
            h.SetAtomicNum(Z[op[2]])
    mol = rw.GetMol()
    try:
        Chem.SanitizeMol(mol)
        mol = Chem.RemoveHs(mol)
        Chem.AssignStereochemistry(mol, cleanIt=True, force=True)
    except Exception:
        return None
    for a in mol.GetAtoms():
        a.SetAtomMapNum(0)
    return Chem.MolToSmiles(mol)


def _shape(smi):
    """(stereo-free canonical SMILES, number of labelled tetrahedral centres, number of labelled double bonds) of an RDKit canonical SMILES"""
    from rdkit import Chem
    if smi is None:
        return None
    rm = Chem.MolFromSmiles(smi)
    nt = sum(a.GetChiralTag() != Chem.ChiralType.CHI_UNSPECIFIED for a in rm.GetAtoms())
    nb = sum(b.GetStereo() != Chem.BondStereo.STEREONONE for b in rm.GetBonds())
    return Chem.MolToSmiles(rm, isomericSmiles=False), nt, nb


def edit_contracts2(m, skel, r, out, limit=2):
    b12 = _b12()
    from oracles import iso
    st, sct, sal = m.stereogenic_tetrahedrons, m.stereogenic_cis_trans, m.stereogenic_allenes
    atoms, bonds = m._atoms, m._bonds
    term = lambda c, x: (len(bonds[x]) == 1 and bonds[c][x].order == 1 and not atoms[x].charge and not atoms[x].isotope
                         and not atoms[x].is_radical and atoms[x].atomic_symbol in Z)
    if rd_can(str(m)) is None:
        return

    was = [n for n, a in m.atoms() if a.stereo is not None]

    def _dependent(c):
        """domain of the property (`centres have constitutionally distinct substituents`): after the edit a centre that was labelled has
        two substituents in one orbit of the stereo-free graph (dependent / pseudo-asymmetric centre: DESIGN C01 gap 1) - not judged"""
        orb = iso.orbits(b12._strip(c))
        stc = c.stereogenic_tetrahedrons
        return any(n in stc and len({orb[x] for x in stc[n]}) < len(stc[n]) for n in was if n in c._atoms)

    def judge(c, kind, ops, extra, wit, config=False):
        """c: edited chython molecule; expected: RDKit after the same edit.  config=False: only WHICH elements carry a label is compared
        (constitution, number of labelled centres / double bonds): the statement says labels stay exactly on stereogenic elements, it does
        not say which configuration a centre has after one of its substituents was deleted or re-attached.  config=True (a substituent
        attached in place of the implicit hydrogen, `wherever a hydrogen stands`): whole canonical strings."""
        exp = _rd_edit(m, ops)
        if exp is None:
            out.note('edit2-rdkit-rejects')
            return
        if extra:
            exp = rd_can(exp + '.' + extra)
        if b12._gap1(c, iso.orbits(c)) or _dependent(c):
            out.gaps += 1
            return
        got = rd_can(str(c))
        if got is None:      # e.g. aromatic [nH] lost: editing a Thiele form invalidates ring hydrogens (documented in the docstrings)
            out.note('edit2-result-unreadable-for-rdkit')
            return
        out.case(1, key=('edit2', skel, kind, wit['centre'], wit['substituent']),
                 sample={'contract': 'edit outside transaction', 'smiles': str(m), 'edit': kind, 'result': str(c), 'rdkit_after_same_edit': exp})
        if (got != exp) if config else (_shape(got) != _shape(exp)):
            out.v(f'edit2:{kind}:{skel}:{wit["centre"]}:{wit["substituent"]}', f'{kind} at labelled element {wit["centre"]} of {m} gives {c} '
                  f'(RDKit: {got}); the same edit on RDKit\'s molecule gives {exp}' + ('' if config else ' (compared: constitution and which elements are labelled)'),
                  witness={'smiles': str(m), 'edit': kind, **wit}, native={'chython': str(c), 'rdkit(chython)': got, 'rdkit_edit': exp})

    done = 0
    cand = [n for n, a in m.atoms() if a.stereo is not None and n in st]
    r.shuffle(cand)
    for n in cand:
        env_n = st[n]
        terms = [x for x in env_n if term(n, x)]
        if not terms:
            continue
        x = r.choice(terms)
        sym = atoms[x].atomic_symbol
        hyd = sym if sym != 'C' else 'C'
        used = {atoms[y].atomic_symbol for y in env_n}
        fresh = next(s for s in ('F', 'Cl', 'Br', 'I') if s not in used)
        wit = {'centre': n, 'substituent': x}
        try:
            c = m.copy()
            c.delete_atom(x)
            judge(c, 'delete_atom', [('set', x, 'H')], None, wit)
            c = m.copy()
            c.delete_bond(n, x)
            judge(c, 'delete_bond', [('set', x, 'H')], hyd, wit)
            c = m.substructure([y for y in m if y != x])
            judge(c, 'substructure', [('set', x, 'H')], None, wit)
            c = m.copy()
            with c:
                c.delete_atom(x)
                c.add_atom(fresh, x)
                c.add_bond(n, x, 1)
            judge(c, 'transaction-replace', [('set', x, fresh)], None, {**wit, 'new': fresh})
            c = m.copy()
            c.delete_atom(x)
            c.add_atom(fresh, x)
            c.add_bond(n, x, 1)
            if len(env_n) == 4:
                # delete (H takes the place) then add: the new atom takes the hydrogen's place
                judge(c, 'delete_atom+add_bond', [('set', x, fresh)], None, {**wit, 'new': fresh})
            if len(env_n) == 3 and len(bonds[n]) == 3:
                c = m.copy()
                new = c.add_atom(fresh)
                c.add_bond(n, new, 1)
                judge(c, 'add_bond(H->X)', [('h2x', n, fresh)], None, {**wit, 'substituent': 'H', 'new': fresh}, config=True)
        except Exception as e:
            out.v(f'edit2-raises:{skel}:{n}', f'an edit at labelled centre {n} of {m} raises {type(e).__name__}: {e}',
                  witness={'smiles': str(m), **wit})
        done += 1
        if done >= limit:
            break

    # double-bond / allene ends: make the two substituents of an end equal (label must go) or keep them distinct (label stays, same
    # configuration as RDKit after the same replacement; allenes / cumulenes: label kept)
    elems = []
    for n, k, b in m.bonds():
        if b.stereo is not None:
            t = m._stereo_cis_trans_terminals[n]
            elems.append(('c', t, sct[t], len(next(p for p in m.stereogenic_cumulenes if p[0] == t[0] and p[-1] == t[1])) == 2))
    for c0, a in m.atoms():
        if a.stereo is not None and c0 in sal:
            elems.append(('a', m._stereo_allenes_terminals[c0], sal[c0], False, c0))
    for el in elems[:limit]:
        (t1, t2), (n1, m1, n2, m2) = el[1], el[2]
        for t, a, b in ((t1, n1, n2), (t2, m1, m2)):
            if b is None or not term(t, a) or not term(t, b) or atoms[a].atomic_symbol == atoms[b].atomic_symbol:
                continue
            used = {atoms[a].atomic_symbol, atoms[b].atomic_symbol}
            fresh = next(s for s in ('F', 'Cl', 'Br', 'I') if s not in used)
            for kind, sym in (('equal', atoms[b].atomic_symbol), ('fresh', fresh)):
                c = m.copy()
                try:
                    with c:
                        c.delete_atom(a)
                        c.add_atom(sym, a)
                        c.add_bond(t, a, 1)
                except Exception as e:
                    out.v(f'edit2-raises:{skel}:{t}', f'replacing substituent {a} at the end {t} of a labelled double bond / allene of {m} raises '
                          f'{type(e).__name__}: {e}', witness={'smiles': str(m), 'end': t, 'substituent': a, 'new': sym})
                    continue
                if el[0] == 'c':
                    i, j = m._stereo_cis_trans_centers[t1]
                    kept = c._bonds[i][j].stereo is not None
                else:
                    kept = c._atoms[el[4]].stereo is not None
                out.case(1, key=('edit2-end', skel, t, kind), sample={'contract': 'edit at a double-bond / allene end', 'smiles': str(m), 'edit': kind,
                                                                      'result': str(c)})
                if kept != (kind == 'fresh'):
                    out.v(f'edit2-end:{kind}:{skel}:{t}', f'substituent {a} of the end {t} of {m} replaced by {sym} ({"both substituents equal" if kind == "equal" else "still distinct"}): '
                          f'label {"kept" if kept else "removed"}, result {c}', witness={'smiles': str(m), 'end': t, 'substituent': a, 'new': sym},
                          native=str(c))
                elif kind == 'fresh' and el[0] == 'c' and el[3]:
                    judge(c, 'end-replace', [('set', a, sym)], None, {'centre': t, 'substituent': a, 'new': sym})
            break


# ---- drawings ------------------------------------------------------------------------------------------------------------------------
def drawable(k):
    return all(a.atomic_symbol in OK_SYMBOLS and not a.is_radical for _, a in k.atoms()) and all(b.order in (1, 2, 3) for *_, b in k.bonds())


def rd_coords(k, stereo=True):
    """independent 2D layout (RDKit) for the chython molecule k (Kekule form): sets atom.xy; False if RDKit rejects chython's text"""
    from rdkit import Chem
    from rdkit.Chem import AllChem
    smi, order = k.__format__('' if stereo else '!s', _return_order=True)
    p = Chem.SmilesParserParams()
    p.removeHs = False
    rm = Chem.MolFromSmiles(smi, p)
    if rm is None or rm.GetNumAtoms() != len(order):
        return False
    AllChem.Compute2DCoords(rm)
    conf = rm.GetConformer()
    for i, n in enumerate(order):
        pos = conf.GetAtomPosition(i)
        k._atoms[n].xy = (pos.x, pos.y)
    k.flush_cache()
    return True


def own_block(k, wedge=None):
    """V2000 block of k (atoms in iteration order) by the independent writer; wedge = (from, to, +1 | -1)"""
    nums = list(k)
    idx = {n: i + 1 for i, n in enumerate(nums)}
    atoms = [(a.atomic_symbol, a.x, a.y) for _, a in k.atoms()]
    bonds = []
    for n, m, b in k.bonds():
        if wedge and {n, m} == {wedge[0], wedge[1]}:
            bonds.append((idx[wedge[0]], idx[wedge[1]], b.order, 1 if wedge[2] > 0 else 6))
        else:
            bonds.append((idx[n], idx[m], b.order, 0))
    chg = [(idx[n], a.charge) for n, a in k.atoms() if a.charge]
    iso = [(idx[n], a.isotope) for n, a in k.atoms() if a.isotope]
    return M.v2000(atoms, bonds, chg, iso), idx


def _carbon_only(rm):
    """chython perceives carbon centres only (assumption of the check): drop RDKit's labels on N, P, S ... centres"""
    from rdkit import Chem
    for a in rm.GetAtoms():
        if a.GetAtomicNum() != 6:
            a.SetChiralTag(Chem.ChiralType.CHI_UNSPECIFIED)
    return _b12()._rd_tetra_only(rm)


def _rd_block_tetra(blk):
    from rdkit import Chem
    rm = Chem.MolFromMolBlock(blk)
    return None if rm is None else _carbon_only(rm)


def _rd_smiles_tetra(s):
    from rdkit import Chem
    rm = Chem.MolFromSmiles(s)
    return None if rm is None else _carbon_only(rm)


def _allene_frame(k, c):
    """(t1, t2, {terminal: [substituent atoms incl. explicit H]}) of the allene / odd cumulene with centre c"""
    path = next(p for p in k.stereogenic_cumulenes if len(p) % 2 and p[len(p) // 2] == c)
    t1, t2 = path[0], path[-1]
    subs = {t1: [x for x, b in k._bonds[t1].items() if x != path[1] and b.order != 8],
            t2: [x for x, b in k._bonds[t2].items() if x != path[-2] and b.order != 8]}
    return t1, t2, subs


def _allene_expected(k, c, tw, x, v):
    """independent reading of the wedge tw -> x (v = +-1) at the allene with centre c; returns (mark for (x, x', y, y'), y)"""
    t1, t2, subs = _allene_frame(k, c)
    to = t2 if tw == t1 else t1
    ys = [y for y in subs[to] if k._atoms[y].atomic_number != 1]
    y = ys[0]
    a = k._atoms
    return M.allene_drawing_mark(tuple(a[tw].xy), tuple(a[to].xy), tuple(a[y].xy), v), y


def _allene_got(mol, c, tw, x, y):
    t1, t2 = mol._stereo_allenes_terminals[c]
    s = mol._translate_allene_sign(c, x, y) if tw == t1 else mol._translate_allene_sign(c, y, x)
    return '@' if s else '@@'


def wedge_read(k, skel, out, limit=3):
    """k: stereo-free Kekule molecule with coordinates.  One wedge at a time on every bond of every possible centre."""
    from chython import mdl_mol
    b12 = _b12()
    atoms, bonds = k._atoms, k._bonds
    free = rd_can(str(k))
    for n in sorted(k.chiral_tetrahedrons)[:limit]:
        for x in bonds[n]:
            for a, b, v in ((n, x, 1), (n, x, -1), (x, n, 1)):
                blk, idx = own_block(k, (a, b, v))
                inv = {i: n_ for n_, i in idx.items()}
                ref = _rd_block_tetra(blk)
                if ref is None:
                    out.note('wedge-read-own:rdkit-rejects-block')
                    continue
                c = mdl_mol(blk)
                got = _rd_smiles_tetra(str(c))
                out.case(1, key=('wedge-read-own', skel, n, x, a == n, v),
                         sample={'contract': 'one wedge on any bond of a centre', 'smiles': skel, 'wedge': [a, b, v], 'read': str(c), 'rdkit': ref})
                if got == ref:
                    continue
                if rd_can(format(c, '!s')) != free:
                    out.note('wedge-read-own:block-constitution-differs')     # C11's business (valence model of the writer here)
                elif b12._ill_conditioned(blk):
                    out.note('wedge-read-own:ill-conditioned-drawing')
                else:
                    out.v(f'wedge-read-own:{skel}:{n}:{x}:{"from-centre" if a == n else "to-centre"}:{v}', f'wedge {a}->{b} ({"up" if v > 0 else "down"}) '
                          f'at centre {n} of {skel}: chython reads {c} (RDKit: {got}), RDKit reads the same block as {ref}',
                          witness={'smiles': skel, 'molblock': blk, 'wedge': [a, b, v]}, native={'chython': str(c), 'rdkit(chython)': got, 'rdkit(block)': ref})
    for c0 in sorted(k.chiral_allenes)[:limit]:
        t1, t2, subs = _allene_frame(k, c0)
        for tw in (t1, t2):
            for x in subs[tw]:
                for v in (1, -1):
                    exp, y = _allene_expected(k, c0, tw, x, v)
                    if exp is None:
                        out.note('allene-wedge-read:substituent-on-axis')
                        continue
                    blk, idx = own_block(k, (tw, x, v))
                    c = mdl_mol(blk)
                    cc, cx, cy, ctw = idx[c0], idx[x], idx[y], idx[tw]
                    out.case(1, key=('allene-wedge-read', skel, c0, x, v), sample={'contract': 'allene wedge on any substituent', 'smiles': skel,
                                                                                     'wedge': [tw, x, v], 'read': str(c)})
                    if c._atoms[cc].stereo is None:
                        got = None
                    else:
                        got = _allene_got(c, cc, ctw, cx, cy)
                    if got != exp:
                        out.v(f'allene-wedge-read:{skel}:{c0}:{x}:{v}', f'wedge {tw}->{x} ({"up" if v > 0 else "down"}) at the allene {c0} of {skel} denotes '
                              f'{exp} for the neighbour order ({x}, its partner, {y}, its partner) by the 3D reading; chython stores {got} (read {c})',
                              witness={'smiles': skel, 'molblock': blk, 'wedge': [tw, x, v]}, native={'chython': str(c), 'stored_for_order': got})


def wedge_write(kk, m, out):
    """kk: labelled Kekule copy of m with coordinates: _wedge_map (through SDFWrite) read by RDKit (tetrahedra) / the 3D reading (allenes)"""
    b12 = _b12()
    sm = str(m)
    try:
        wm = list(kk._wedge_map)
        blk = b12._molblock(kk)
    except Exception as e:   # a labelled molecule with coordinates must be drawable: the writers' failure is the finding
        out.v(f'wedge-write-raises:{sm}', f'_wedge_map / SDFWrite of the labelled molecule {sm} raises {type(e).__name__}: {e}', witness={'smiles': sm})
        return
    if any(a.stereo is not None and n in kk.stereogenic_tetrahedrons for n, a in kk.atoms()):
        got = _rd_block_tetra(blk)
        ref = _rd_smiles_tetra(sm)
        out.case(1, key=('wedge-write-rdcoords', sm))
        if got != ref:
            if b12._ill_conditioned(blk):
                out.note('wedge-write:ill-conditioned-drawing')
            else:
                out.v(f'wedge-write-rdcoords:{sm}', f'molblock written for {sm} on RDKit coordinates is read by RDKit as {got}, str(m) as {ref}',
                      witness={'smiles': sm, 'molblock': blk}, native={'rdkit(molblock)': got, 'rdkit(str)': ref})
    sal = kk.stereogenic_allenes
    lab = [n for n, a in kk.atoms() if a.stereo is not None and n in sal]
    if lab:
        cen = kk._stereo_allenes_centers
        for c0 in lab:
            ws = [(n, x, v) for n, x, v in wm if cen.get(n) == c0 and x != c0 and x in _allene_frame(kk, c0)[2].get(n, ())]
            out.case(1, key=('allene-wedge-write', sm, c0), sample={'contract': 'allene wedge written (any substituent count)', 'smiles': sm, 'wedges': wm})
            if len(ws) != 1:
                out.v(f'allene-wedge-write2:{sm}:{c0}', f'_wedge_map of {sm} has {len(ws)} wedges for the labelled allene {c0}: {wm}',
                      witness={'smiles': sm}, native=wm)
                continue
            tw, x, v = ws[0]
            if not v:
                out.note('allene-wedge-write:ambiguous-layout')
                continue
            exp, y = _allene_expected(kk, c0, tw, x, v)
            if exp is None:
                out.note('allene-wedge-write:substituent-on-axis')
                continue
            got = _allene_got(kk, c0, tw, x, y)
            if got != exp:
                out.v(f'allene-wedge-write2:{sm}:{c0}', f'_wedge_map of {sm} draws {tw}->{x} {"up" if v > 0 else "down"}: the 3D reading gives {exp} for '
                      f'the neighbour order ({x}, partner, {y}, partner), the molecule stores {got}', witness={'smiles': sm}, native={'wedges': wm})


def _reflect_end(k, n, nxt, m_end):
    """mirror every atom hanging on the double-bond end n (reached without crossing n-nxt) in the line n - m_end; False if n-nxt is in a ring"""
    seen = {n, nxt}
    todo = [x for x in k._bonds[n] if x != nxt]
    side = []
    while todo:
        x = todo.pop()
        if x == nxt:
            return False
        if x in seen:
            continue
        seen.add(x)
        side.append(x)
        for y in k._bonds[x]:
            if y == nxt and x != n:
                return False
            if y not in seen:
                todo.append(y)
    a = k._atoms
    for x in side:
        a[x].xy = M.mirror(tuple(a[x].xy), tuple(a[n].xy), tuple(a[m_end].xy))
    return True


def ct_from_2d(k, skel, out):
    """k: stereo-free Kekule molecule with coordinates; calc_cis_trans=True reader option == independent readings of the layout"""
    from chython import mdl_mol
    sct = k.stereogenic_cis_trans
    E = sorted(k.chiral_cis_trans)
    if not E:
        return
    paths = {(p[0], p[-1]): p for p in k.stereogenic_cumulenes if not len(p) % 2}
    simple = all(len(paths[nm]) == 2 for nm in sct if nm in paths)
    for variant in ('layout', 'mirrored-end'):
        if variant == 'mirrored-end':
            n, m = E[0]
            p = paths[(n, m)]
            if not _reflect_end(k, n, p[1], m):
                break
            k.flush_cache()
        blk, idx = own_block(k)
        c = mdl_mol(blk, calc_cis_trans=True)
        a = k._atoms
        for n, m in E:
            n1, m1, _, _ = sct[(n, m)]
            exp = M.same_side(tuple(a[n].xy), tuple(a[m].xy), tuple(a[n1].xy), tuple(a[m1].xy))
            if exp is None:
                out.note('ct2d:substituent-on-axis')
                continue
            try:
                got = c._translate_cis_trans_sign(idx[n], idx[m], idx[n1], idx[m1])
            except KeyError:
                got = None
            out.case(1, key=('ct2d', skel, n, m, variant), sample={'contract': 'cis/trans from 2D', 'smiles': skel, 'bond': [n, m], 'cis': exp, 'read': str(c)})
            if got is not exp:
                out.v(f'ct2d:{skel}:{n}-{m}:{variant}', f'in the {variant} of {skel} the substituents {n1} and {m1} of the double-bond chain {n}..{m} lie on '
                      f'{"the same side" if exp else "opposite sides"}; the reader (calc_cis_trans=True) stores {"cis" if got else "trans" if got is False else "no label"} '
                      f'for them (read {c})', witness={'smiles': skel, 'molblock': blk, 'variant': variant}, native=str(c))
        if simple:
            from oracles.o12_stereo import rd_can_molblock
            ref = rd_can_molblock(blk)
            got = rd_can(str(c))
            out.case(1)
            if ref is not None and got != ref and rd_can(format(c, '!s')) == rd_can(skel):
                # RDKit also derives tetrahedral nothing (no wedges): whole strings comparable
                out.v(f'ct2d-rdkit:{skel}:{variant}', f'{variant} of {skel}: the reader (calc_cis_trans=True) gives {c} (RDKit: {got}); RDKit reads the same block as {ref}',
                      witness={'smiles': skel, 'molblock': blk, 'variant': variant}, native={'chython': str(c), 'rdkit(chython)': got, 'rdkit(block)': ref})
        # reader default: no geometry-derived label, wedge-free block -> no label at all
        c0 = mdl_mol(blk)
        out.case(1)
        if any(b.stereo is not None for *_, b in c0.bonds()):
            out.v(f'ct2d-default:{skel}', f'mdl_mol without calc_cis_trans stores a cis/trans label for a block without any stereo mark ({c0})',
                  witness={'smiles': skel, 'molblock': blk})


# ---- RDKit bridge ------------------------------------------------------------------------------------------------------------------------
def bridge(c, out):
    from rdkit import Chem
    from chython.utils import to_rdkit_molecule, from_rdkit_molecule
    from bounded import domains as D
    s = str(c)
    if ' ' in s or rd_can(s) is None:
        return
    par = Chem.SmilesParserParams()
    par.removeHs = False        # to_rdkit_molecule keeps explicit hydrogens as atoms: compare with them in place
    ref = Chem.MolToSmiles(Chem.MolFromSmiles(s, par))
    try:
        rm = to_rdkit_molecule(c, keep_mapping=False)
    except Exception:
        out.note('bridge:to_rdkit-raises')      # C20's contract
        return
    # RDKit's SMILES writer forgets STEREOE/Z labels that have no bond directions when the molecule has several fragments
    # ('F/C=C/Cl.O' built by hand -> 'FC=CCl.O' although the bond object says STEREOE): write the directions first
    Chem.SetDoubleBondNeighborDirections(rm)
    got = Chem.MolToSmiles(rm)
    out.case(1, key=('bridge-to', s))
    if got != ref:
        out.v(f'bridge-to:{s}', f'to_rdkit_molecule({s}) is {got} for RDKit, the SMILES text of the same molecule {ref}', witness={'smiles': s},
              native={'rdkit(to_rdkit)': got, 'rdkit(str)': ref})
    ref = rd_can(s)
    rm = Chem.MolFromSmiles(s)
    back = from_rdkit_molecule(rm)
    D.norm(back)
    got = rd_can(str(back))
    out.case(1, key=('bridge-from', s))
    if got != ref:
        out.v(f'bridge-from:{s}', f'from_rdkit_molecule(RDKit({s})) = {back} (RDKit: {got}), expected {ref}', witness={'smiles': s},
              native={'chython': str(back), 'rdkit': got})
