"""Engine F: cache coherence as a typestate with ghost write-sets, discharged per mutator against derived read-sets.

Invariant  Coherent(m): every memoised value in m.__dict__ equals what its function returns on the current atoms, bonds and fields;
           the labels written by calc_labels equal what calc_labels would write now.
Abstract state of one analysis: `cached` (keys that may be present) and `stale` (subset that may be out of date).
  write to location L         -> every cached key whose read-set contains L becomes stale
  flush_cache(keep...)        -> both sets are intersected with the kept keys;   __dict__.pop(k) / flush_stereo_cache remove keys
  read of key k               -> OBLIGATION k not stale; a key computed now must not be computed from a stale key
  exit of a public mutator    -> OBLIGATION stale == {}
Read-sets are derived from the AST (transitive closure over self.<attr> references, attribute names of atom/bond fields, bond
comparisons); the six keys that flush_cache/copy may keep additionally carry a DECLARED read-set: obligation derived <= declared.
The analysis is flow-sensitive, joins paths by union (sound for may-sets), inlines self.method() calls with constant keyword
arguments, and evaluates simple guards (_skip_calculation, `self._backup is None`).
"""
import ast
import importlib
import inspect
import os

from vlib import env

A_SET, A_ISO, A_CH, A_RAD, A_H, STEREO, XY, B_TOPO, B_ORDER, B_SPECIAL, LABELS, META = (
    'A.set', 'A.isotope', 'A.charge', 'A.radical', 'A.h', 'stereo', 'xy', 'B.topo', 'B.order', 'B.special', 'labels', 'meta')

ATTR_READ = {
    'charge': {A_CH}, '_charge': {A_CH}, 'is_radical': {A_RAD}, '_is_radical': {A_RAD}, 'isotope': {A_ISO}, '_isotope': {A_ISO},
    'implicit_hydrogens': {A_H}, '_implicit_hydrogens': {A_H}, 'total_hydrogens': {A_H}, 'stereo': {STEREO}, '_stereo': {STEREO},
    'xy': {XY}, '_xy': {XY}, 'order': {B_ORDER, B_SPECIAL}, '_order': {B_ORDER, B_SPECIAL},
    'in_ring': {LABELS}, '_in_ring': {LABELS}, 'ring_sizes': {LABELS}, '_ring_sizes': {LABELS}, 'neighbors': {LABELS}, '_neighbors': {LABELS},
    'hybridization': {LABELS}, '_hybridization': {LABELS}, 'heteroatoms': {LABELS}, '_heteroatoms': {LABELS},
    'explicit_hydrogens': {LABELS, A_H}, '_explicit_hydrogens': {LABELS}, 'atomic_mass': {A_ISO},
    '_atoms': {A_SET}, '_bonds': {B_TOPO}, '_meta': {META}, 'meta': {META},
}
ATTR_WRITE = {
    '_charge': {A_CH}, 'charge': {A_CH}, '_is_radical': {A_RAD}, 'is_radical': {A_RAD}, '_isotope': {A_ISO}, 'isotope': {A_ISO},
    '_implicit_hydrogens': {A_H}, '_stereo': {STEREO}, '_xy': {XY}, 'xy': {XY}, 'x': {XY}, 'y': {XY}, '_order': {B_ORDER, B_SPECIAL},
    '_in_ring': {LABELS}, '_ring_sizes': {LABELS}, '_neighbors': {LABELS}, '_hybridization': {LABELS}, '_heteroatoms': {LABELS},
    '_explicit_hydrogens': {LABELS}, '_atoms': {A_SET}, '_bonds': {B_TOPO, B_ORDER, B_SPECIAL}, '_meta': {META},
}
GRAPH_METHODS_READ = {'atoms': {A_SET}, 'atom': {A_SET}, 'has_atom': {A_SET}, 'bonds': {B_TOPO}, 'bond': {B_TOPO}, 'has_bond': {B_TOPO}}
HASH_READS = {A_ISO, A_CH, A_RAD, A_H, LABELS, B_ORDER, B_SPECIAL}     # Element.__hash__ / Bond.__hash__
MUTATING_DICT_METHODS = {'pop', 'update', 'clear', 'popitem', 'setdefault', '__setitem__', '__delitem__'}
KEEP_SSSR = ('sssr', 'atoms_rings', 'atoms_rings_sizes', 'not_special_connectivity', 'rings_count')
KEEP_COMPONENTS = ('connected_components',)
LABELS_KEY = '$labels'


class Func:
    def __init__(self, cls, node, kind, file, key=None):
        self.cls, self.node, self.kind, self.file, self.key = cls, node, kind, file, key
        self.name = node.name


class ClassModel:
    """all functions along the MRO of a class, parsed from the current source"""

    def __init__(self, cls):
        self.cls = cls
        self.mro = [c for c in cls.__mro__ if c is not object and c.__module__.startswith('chython')]
        self.funcs = {}          # public attribute name -> [Func in MRO order]
        self.modules = {}        # module name -> {function name: FunctionDef}
        self.sources = {}
        for c in self.mro:
            try:
                file = inspect.getsourcefile(c)
            except TypeError:
                continue
            if file not in self.sources:
                src = open(file, encoding='utf8').read()
                self.sources[file] = (src, ast.parse(src))
            tree = self.sources[file][1]
            self.modules[c.__module__] = {n.name: n for n in tree.body if isinstance(n, ast.FunctionDef)}
            cd = next((n for n in tree.body if isinstance(n, ast.ClassDef) and n.name == c.__name__), None)
            if cd is None:
                continue
            for n in cd.body:
                if not isinstance(n, ast.FunctionDef):
                    continue
                decs = [ast.unparse(d) for d in n.decorator_list]
                name = n.name
                if name.startswith('__') and not name.endswith('__'):
                    name = f'_{c.__name__}{name}'
                kind, key = 'method', None
                if any(d.startswith('cached_property') for d in decs):
                    kind, key = 'cached', name
                elif any(d.startswith('cached_method') for d in decs):
                    kind, key = 'cached_method', f'__cached_method_{n.name}'
                elif any(d.startswith('cached_args_method') for d in decs):
                    kind, key = 'cached_method', f'__cached_args_method_{n.name}'
                elif any(d == 'property' for d in decs):
                    kind = 'property'
                elif any(d.endswith('.setter') for d in decs):
                    continue
                elif any(d == 'classmethod' or d == 'staticmethod' for d in decs):
                    kind = 'classmethod'
                self.funcs.setdefault(name, []).append(Func(c, n, kind, file, key))
        self.keys = sorted({f.key for fs in self.funcs.values() for f in fs[:1] if f.key})
        self.key_of_name = {name: fs[0].key for name, fs in self.funcs.items() if fs[0].key}
        self._reads = {}

    def resolve(self, name, cls_ctx=None):
        """mangle private names used inside class cls_ctx"""
        if name.startswith('__') and not name.endswith('__') and cls_ctx is not None:
            return f'_{cls_ctx.__name__}{name}'
        return name

    def lookup(self, name, after=None):
        fs = self.funcs.get(name)
        if not fs:
            return None
        if after is None:
            return fs[0]
        idx = self.mro.index(after)
        for f in fs:
            if self.mro.index(f.cls) > idx:
                return f
        return None

    # ---- read-set derivation (order-insensitive closure) --------------------------------------------------------------------
    def reads(self, func, _stack=None):
        """(locations read, cache keys read) transitively"""
        k = (func.cls, func.name)
        if k in self._reads:
            return self._reads[k]
        _stack = _stack or set()
        if k in _stack:
            return set(), set()
        _stack = _stack | {k}
        locs, keys = self._reads_node(func.node, func.cls, _stack)
        self._reads[k] = (locs, keys)
        return locs, keys

    def _reads_node(self, node, cls, _stack):
        locs, keys = set(), set()
        touches_bonds = False
        consts = set()
        for n in ast.walk(node):
            if isinstance(n, ast.Attribute) and isinstance(n.ctx, ast.Load):
                if n.attr in ATTR_READ:
                    locs |= ATTR_READ[n.attr]
                    if n.attr == '_bonds':
                        touches_bonds = True
                if isinstance(n.value, ast.Name) and n.value.id == 'self':
                    name = self.resolve(n.attr, cls)
                    if name in GRAPH_METHODS_READ:
                        locs |= GRAPH_METHODS_READ[name]
                        if 'bond' in name:
                            touches_bonds = True
                    f = self.lookup(name)
                    if f is not None:
                        if f.key:
                            keys.add(f.key)
                        l2, k2 = self.reads(f, _stack)
                        locs |= l2
                        keys |= k2
            elif isinstance(n, ast.Call):
                fn = n.func
                if isinstance(fn, ast.Name):
                    if fn.id == 'hash':
                        locs |= HASH_READS
                    elif fn.id in ('int', 'sum') and touches_bonds:
                        pass
                    mod = self.modules.get(cls.__module__, {})
                    if fn.id in mod and (cls, fn.id) not in _stack:
                        l2, k2 = self._reads_node(mod[fn.id], cls, _stack | {(cls, fn.id)})
                        locs |= l2
                        keys |= k2
                if isinstance(fn, ast.Name) and fn.id in ('len', 'iter', 'bool') and n.args and isinstance(n.args[0], ast.Name) and n.args[0].id == 'self':
                    locs.add(A_SET)
                if isinstance(fn, ast.Attribute) and isinstance(fn.value, ast.Call) and isinstance(fn.value.func, ast.Name) and fn.value.func.id == 'super':
                    f = self.lookup(self.resolve(fn.attr, cls), after=cls)
                    if f is not None:
                        l2, k2 = self.reads(f, _stack)
                        locs |= l2
                        keys |= k2
            elif isinstance(n, ast.Compare):
                for c in [n.left] + list(n.comparators):
                    if isinstance(c, ast.Constant) and isinstance(c.value, int) and not isinstance(c.value, bool):
                        consts.add(c.value)
            elif isinstance(n, (ast.For, ast.comprehension)) and isinstance(n.iter, ast.Name) and n.iter.id == 'self':
                locs.add(A_SET)
        if B_TOPO in locs or touches_bonds:
            if consts & {1, 2, 3, 4}:
                locs |= {B_ORDER, B_SPECIAL}
            if 8 in consts:
                locs.add(B_SPECIAL)
            if any(isinstance(n, ast.Call) and isinstance(n.func, ast.Name) and n.func.id == 'int' for n in ast.walk(node)):
                locs |= {B_ORDER, B_SPECIAL}
        return locs, keys

    def read_sets(self):
        out = {}
        for name, fs in self.funcs.items():
            f = fs[0]
            if f.key:
                locs, keys = self.reads(f)
                out[f.key] = (frozenset(locs), frozenset(keys - {f.key}))
        return out


class Failure:
    def __init__(self, mutator, kind, key, detail, where):
        self.mutator, self.kind, self.key, self.detail, self.where = mutator, kind, key, detail, where

    def ident(self):
        return f'{self.mutator}:{self.kind}:{self.key}'

    def __repr__(self):
        return f'{self.ident()} [{self.detail}] at {self.where}'


class State:
    __slots__ = ('cached', 'stale')

    def __init__(self, cached, stale):
        self.cached, self.stale = set(cached), set(stale)

    def copy(self):
        return State(self.cached, self.stale)

    def join(self, o):
        self.cached |= o.cached
        self.stale |= o.stale


class Analyzer:
    MAX_DEPTH = 8

    def __init__(self, model, declared=None, order_only=(), store_override=None, labels_preserved=(), break_lemmas=()):
        self.m = model
        self.rs = {k: (frozenset(l | ({'A.names'} if l & {A_SET, B_TOPO} else set())), d) for k, (l, d) in model.read_sets().items()}
        self.declared = declared or {}
        self.order_only = set(order_only)              # functions whose `_order` stores keep the order-8 partition (assumed frame contract)
        self.store_override = store_override or {}     # mutator -> {attribute: locations}  (e.g. remap renames, it does not change the atom set)
        self.labels_preserved = set(labels_preserved)  # mutators whose structural writes do not invalidate atom/bond labels (assumed)
        self.break_lemmas = set(break_lemmas)          # (function, test text): at this break the current iteration performed no write (lemma proved by P)
        self.guards = set()                            # (function, local name): a falsy guard means the function has written nothing so far (assumed)
        self._iter_start = []
        self._gcheck = {}
        self._kept = {}
        self.topo_keeps = {}                            # mutator -> keys its structural writes provably leave valid (assumed lemma)
        label_reads = set()
        f = model.lookup('calc_labels')
        if f is not None:
            l, k = model.reads(f)
            label_reads = set(l) - {LABELS}
            self.label_deps = set(k)
        else:
            self.label_deps = set()
        self.rs[LABELS_KEY] = (frozenset(label_reads), frozenset(self.label_deps))
        self.all_keys = set(self.rs)
        self.failures = []
        self.obligations = []       # (name, ok)
        self.trace = []

    # ---- ghost operations ----------------------------------------------------------------------------------------------------
    def write(self, st, locs, ctx, where, fname=None):
        if fname in self.order_only and locs == {B_ORDER, B_SPECIAL}:
            locs = {B_ORDER}
        root = ctx.split('/')[0]
        for k in list(st.cached):
            if k == LABELS_KEY and root in self.labels_preserved:
                continue
            if k in self.topo_keeps.get(root, ()):
                continue
            if k not in st.stale and self.rs[k][0] & locs:
                st.stale.add(k)
                self.trace.append((ctx, 'stale', k, sorted(self.rs[k][0] & locs), where))

    def read_key(self, st, k, ctx, where):
        if k not in self.rs:
            return
        name = f'{ctx}:read-fresh:{k}'
        if k in st.stale:
            self._fail(ctx, 'reads-stale', k, f'cached key {k} may be out of date when it is read', where)
            return
        if k not in st.cached:
            for j in self.rs[k][1]:
                if j in st.stale:
                    self._fail(ctx, 'computed-from-stale', f'{k}<-{j}', f'{k} would be computed from stale {j}', where)
                elif j in self.rs:
                    st.cached.add(j)
            st.cached.add(k)
        self.obligations.append((name, True))

    def kept_keys(self, fname='flush_cache'):
        """keys that MoleculeContainer.<fname>(keep_sssr=True) / (keep_components=True) keeps, read from the current source"""
        if fname not in self._kept:
            f = self.m.lookup(fname)
            out = {'keep_sssr': set(), 'keep_components': set()}
            for n in ast.walk(f.node):
                if isinstance(n, ast.If) and isinstance(n.test, ast.Name) and n.test.id in out:
                    for x in ast.walk(n):
                        if isinstance(x, ast.Constant) and isinstance(x.value, str):
                            out[n.test.id].add(x.value)
            self._kept[fname] = out
        return self._kept[fname]

    def flush(self, st, keep_sssr, keep_components):
        kept = set()
        kk = self.kept_keys()
        if keep_sssr is not False:
            kept |= kk['keep_sssr']
        if keep_components is not False:
            kept |= kk['keep_components']
        kept.add(LABELS_KEY)
        st.cached &= kept
        st.stale &= kept

    def _fail(self, ctx, kind, key, detail, where):
        f = Failure(ctx, kind, key, detail, where)
        if f.ident() not in {x.ident() for x in self.failures}:
            self.failures.append(f)

    # ---- abstract interpretation --------------------------------------------------------------------------------------------
    def run_mutator(self, name, consts=None, pre_stale_all=False, label=None):
        f = self.m.lookup(name)
        if f is None:
            raise LookupError(name)
        ctx = label or name
        n0 = len(self.failures)
        st = State(self.all_keys, self.all_keys if pre_stale_all else ())
        env_ = self._bind(f, consts or {})
        outs = self.exec_body(f.node.body, st, f, env_, ctx, 0)
        final = State((), ())
        for o in outs:
            final.join(o)
        for k in sorted(final.stale):
            why = [t for t in self.trace if t[0] == ctx and t[2] == k]
            self._fail(ctx, 'exit-stale', k, f'{k} may be stale at exit (written locations {why[-1][3] if why else "?"})', why[-1][4] if why else f.file)
        self.obligations.append((f'{ctx}:exit-coherent', len(self.failures) == n0))
        return self.failures[n0:]

    def _bind(self, f, consts):
        env_ = {'$aliases': {}, '$self': {'self'}}
        a = f.node.args
        names = [x.arg for x in a.args]
        for x, d in zip(names[len(names) - len(a.defaults):], a.defaults):
            if isinstance(d, ast.Constant):
                env_[x] = d.value
        for x, d in zip(a.kwonlyargs, a.kw_defaults):
            if isinstance(d, ast.Constant):
                env_[x.arg] = d.value
        env_.update(consts)
        return env_

    def const(self, node, env_):
        """True / False / None for known, 'unknown' otherwise"""
        if isinstance(node, ast.Constant):
            return node.value
        if isinstance(node, ast.Name) and node.id in env_ and not node.id.startswith('$'):
            v = env_[node.id]
            return v if isinstance(v, bool) or v is None else 'unknown'
        if isinstance(node, ast.UnaryOp) and isinstance(node.op, ast.Not):
            v = self.const(node.operand, env_)
            return 'unknown' if v == 'unknown' else not v
        if isinstance(node, ast.BoolOp):
            vs = [self.const(v, env_) for v in node.values]
            if isinstance(node.op, ast.And):
                if any(v != 'unknown' and not v for v in vs):
                    return False
                return 'unknown' if any(v == 'unknown' for v in vs) else True
            if any(v != 'unknown' and v for v in vs):
                return True
            return 'unknown' if any(v == 'unknown' for v in vs) else False
        if isinstance(node, ast.Compare) and len(node.ops) == 1 and isinstance(node.ops[0], (ast.Is, ast.IsNot)):
            if ast.unparse(node.left) == 'self._backup' and isinstance(node.comparators[0], ast.Constant) and node.comparators[0].value is None:
                v = env_.get('$in_transaction', False)
                return (not v) if isinstance(node.ops[0], ast.Is) else v
        return 'unknown'

    def exec_body(self, body, st, f, env_, ctx, depth):
        """returns list of normal-exit states (fall-through and returns); raise ends a path"""
        env_['$entry'] = st.copy()
        states = [st]
        exits = []
        for s in body:
            nxt = []
            for cur in states:
                r, ex = self.exec_stmt(s, cur, f, env_, ctx, depth)
                nxt += r
                exits += ex
            if not nxt:
                states = []
                break
            merged = nxt[0]
            for o in nxt[1:]:
                merged.join(o)
            states = [merged]
        return states + exits

    def exec_stmt(self, s, st, f, env_, ctx, depth):
        """-> (fall-through states, exit states)"""
        if isinstance(s, ast.Return):
            if s.value is not None:
                self.expr(s.value, st, f, env_, ctx, depth)
            return [], [st]
        if isinstance(s, ast.Raise):
            return [], []
        if isinstance(s, (ast.Expr,)):
            self.expr(s.value, st, f, env_, ctx, depth)
            return [st], []
        if isinstance(s, ast.Assign):
            for t in s.targets:
                for tt in (t.elts if isinstance(t, ast.Tuple) else [t]):
                    if isinstance(tt, ast.Name) and (f.name, tt.id) in self.guards and tt.id not in env_.setdefault('$ginit', {}):
                        env_['$ginit'][tt.id] = st.copy()
            self.expr(s.value, st, f, env_, ctx, depth)
            self.track_alias(s, env_)
            for t in s.targets:
                self.store(t, st, f, env_, ctx)
            for t in s.targets:      # constant propagation of flags
                if isinstance(t, ast.Name):
                    v = self.const(s.value, env_)
                    if v == 'unknown':
                        env_.pop(t.id, None)
                    else:
                        env_[t.id] = v
            return [st], []
        if isinstance(s, ast.AugAssign):
            self.expr(s.value, st, f, env_, ctx, depth)
            self.store(s.target, st, f, env_, ctx)
            return [st], []
        if isinstance(s, ast.AnnAssign):
            if s.value is not None:
                self.expr(s.value, st, f, env_, ctx, depth)
            return [st], []
        if isinstance(s, ast.Delete):
            for t in s.targets:
                self.store(t, st, f, env_, ctx, delete=True)
            return [st], []
        if isinstance(s, ast.If):
            self.expr(s.test, st, f, env_, ctx, depth)
            c = self.const(s.test, env_)
            outs, exits = [], []
            branches = [s.body, s.orelse] if c == 'unknown' else [s.body if c else s.orelse]
            envs = []
            guard = next((n_.id for n_ in ast.walk(s.test) if isinstance(n_, ast.Name) and (f.name, n_.id) in self.guards), None)
            for b in branches:
                benv = dict(env_)
                benv['$aliases'] = dict(env_['$aliases'])
                if guard is not None and b is s.orelse and c == 'unknown':
                    base = self.guard_base(f, guard, env_)
                    if base is not None:
                        # lemma (checked syntactically, see guard_base): guard falsy => no governed write happened since `base`
                        g = State(st.cached | base.cached, base.stale)
                        res = self._seq(b, g, f, benv, ctx, depth)
                        outs += res[0]
                        exits += res[1]
                        envs.append(benv)
                        continue
                self._cur_if_test = ast.unparse(s.test) if b is s.body else None
                res = self._seq(b, st.copy(), f, benv, ctx, depth)
                self._cur_if_test = None
                outs += res[0]
                exits += res[1]
                self._pending_loops = getattr(self, '_pending_loops', []) + res[2]
                envs.append(benv)
            if len(envs) == 1:
                env_.clear()
                env_.update(envs[0])
            else:
                for k in set(envs[0]) | set(envs[1]):
                    if k.startswith('$'):
                        continue
                    a, b2 = envs[0].get(k, 'unknown'), envs[1].get(k, 'unknown')
                    if a == b2 and a != 'unknown':
                        env_[k] = a
                    else:
                        env_.pop(k, None)
                env_['$aliases'] = {**envs[0]['$aliases'], **envs[1]['$aliases']}
                env_['$self'] = envs[0]['$self'] | envs[1]['$self']
            return outs, exits
        if isinstance(s, (ast.For, ast.While)):
            if isinstance(s, ast.For):
                self.expr(s.iter, st, f, env_, ctx, depth)
                self.track_for(s, env_)
                for n_ in ast.walk(s.iter):
                    if isinstance(n_, ast.Name) and (f.name, n_.id) in self.guards:
                        env_.setdefault('$gloop', {})[n_.id] = st.copy()
            else:
                self.expr(s.test, st, f, env_, ctx, depth)
            acc = st.copy()
            exits = []
            for _ in range(3):              # loop to fixpoint (may-sets only grow)
                b = acc.copy()
                self._iter_start.append(acc.copy())
                self._pending_loops = []
                res = self._seq(s.body, b, f, env_, ctx, depth, in_loop=True)
                exits += res[1]
                before = (set(acc.cached), set(acc.stale))
                for o in res[0] + res[2] + self._pending_loops:
                    acc.join(o)
                self._pending_loops = []
                self._iter_start.pop()
                if (acc.cached, acc.stale) == before:
                    break
            out = acc
            if s.orelse:
                res = self._seq(s.orelse, out.copy(), f, env_, ctx, depth)
                return res[0], exits + res[1]
            return [out], exits
        if isinstance(s, ast.Try):
            res = self._seq(s.body, st.copy(), f, env_, ctx, depth)
            outs, exits = list(res[0]), list(res[1])
            for h in s.handlers:
                hst = st.copy()
                for o in res[0]:
                    hst.join(o)
                r2 = self._seq(h.body, hst, f, env_, ctx, depth)
                outs += r2[0]
                exits += r2[1]
            if s.orelse:
                o2 = []
                for o in res[0]:
                    r3 = self._seq(s.orelse, o, f, env_, ctx, depth)
                    o2 += r3[0]
                    exits += r3[1]
                outs = o2 + [o for o in outs if o not in res[0]]
            if s.finalbody:
                o3 = []
                for o in outs:
                    r4 = self._seq(s.finalbody, o, f, env_, ctx, depth)
                    o3 += r4[0]
                    exits += r4[1]
                outs = o3
            return outs, exits
        if isinstance(s, ast.With):
            for it in s.items:
                self.expr(it.context_expr, st, f, env_, ctx, depth)
            res = self._seq(s.body, st, f, env_, ctx, depth)
            return res[0], res[1]
        if isinstance(s, (ast.Break, ast.Continue)):
            return [], [('loop', st)] if False else ([], [])
        if isinstance(s, (ast.Pass, ast.Import, ast.ImportFrom, ast.Global, ast.Nonlocal, ast.FunctionDef, ast.Assert)):
            return [st], []
        return [st], []

    def _seq(self, body, st, f, env_, ctx, depth, in_loop=False):
        """-> (fall-through states, exit states, loop-exit states (break/continue))"""
        states, exits, loops = [st], [], []
        for s in body:
            if not states:
                break
            cur = states[0]
            for o in states[1:]:
                cur.join(o)
            if isinstance(s, (ast.Break, ast.Continue)):
                lem = getattr(self, '_cur_if_test', None)
                if isinstance(s, ast.Break) and lem is not None and (f.name, lem) in self.break_lemmas and self._iter_start:
                    cur = State(cur.cached, self._iter_start[-1].stale & cur.cached)     # lemma: no write happened in this iteration
                loops.append(cur)
                states = []
                break
            r, ex = self.exec_stmt(s, cur, f, env_, ctx, depth)
            states = r
            exits += ex
        return states, exits, loops

    def guard_base(self, f, guard, env_):
        """state to fall back to when `guard` is falsy, or None when the lemma `guard falsy => no write` is not syntactically evident:
        (a) every write of the function lies in a loop iterating over the guard  -> state before that loop;
        (b) every write lies in a block that (itself or an enclosing block) also updates the guard -> state at the guard's initialisation"""
        key = (f.cls, f.name, guard)
        if key not in self._gcheck:
            self._gcheck[key] = self._governed(f.node, guard)
        mode = self._gcheck[key]
        if guard in env_.get('$gloop', {}) and self._loop_then_if(f.node, guard):
            return env_['$gloop'][guard]       # `for x in guard: writes` directly followed by `if guard: flush`: falsy guard = loop did not run
        if mode == 'accumulate' and guard in env_.get('$ginit', {}):
            return env_['$ginit'][guard]
        return None

    def _loop_then_if(self, fnode, guard):
        def uses(n):
            return any(isinstance(x, ast.Name) and x.id == guard for x in ast.walk(n))
        for n in ast.walk(fnode):
            for fld in ('body', 'orelse'):
                blk = getattr(n, fld, None)
                if isinstance(blk, list):
                    for a, b in zip(blk, blk[1:]):
                        if isinstance(a, ast.For) and uses(a.iter) and isinstance(b, ast.If) and uses(b.test):
                            return True
        return False

    def _governed(self, fnode, guard):
        writes = []

        def is_write(n):
            if isinstance(n, (ast.Assign, ast.AugAssign, ast.Delete)):
                tg = n.targets if isinstance(n, (ast.Assign, ast.Delete)) else [n.target]
                for t in tg:
                    for x in ast.walk(t):
                        if isinstance(x, ast.Attribute) and isinstance(x.ctx, (ast.Store, ast.Del)) and x.attr in ATTR_WRITE:
                            return True
                        if isinstance(x, ast.Subscript) and isinstance(x.ctx, (ast.Store, ast.Del)) and \
                                not (isinstance(x.value, ast.Name) and x.value.id == guard):
                            base = x.value
                            while isinstance(base, ast.Subscript):
                                base = base.value
                            if isinstance(base, ast.Name) and base.id in ('atoms', 'bonds') or \
                                    isinstance(base, ast.Attribute) and base.attr in ('_atoms', '_bonds'):
                                return True
            if isinstance(n, ast.Expr) and isinstance(n.value, ast.Call) and isinstance(n.value.func, ast.Attribute) and \
                    n.value.func.attr in ('delete_bond', 'delete_atom', 'add_bond', 'add_atom'):
                return True
            return False

        def updates_guard(n):
            for x in ast.walk(n):
                if isinstance(x, ast.Call) and isinstance(x.func, ast.Attribute) and isinstance(x.func.value, ast.Name) and \
                        x.func.value.id == guard and x.func.attr in ('add', 'append', 'update', 'extend', 'insert'):
                    return True
                if isinstance(x, (ast.Assign, ast.AugAssign)):
                    tg = x.targets if isinstance(x, ast.Assign) else [x.target]
                    for t in tg:
                        if isinstance(t, ast.Subscript) and isinstance(t.value, ast.Name) and t.value.id == guard:
                            return True
                        if isinstance(t, ast.Name) and t.id == guard and isinstance(x, ast.Assign) and isinstance(x.value, ast.Constant) and x.value.value is True:
                            return True
            return False

        def iterates_guard(n):
            return isinstance(n, ast.For) and any(isinstance(x, ast.Name) and x.id == guard for x in ast.walk(n.iter))

        def walk(block, gov_loop, gov_acc):
            acc_here = gov_acc or any(updates_guard(x) and not isinstance(x, (ast.For, ast.While, ast.If, ast.Try)) for x in block)
            for n in block:
                if isinstance(n, ast.If) and any(isinstance(x, ast.Name) and x.id == guard for x in ast.walk(n.test)):
                    continue            # the guarded region itself (its writes are followed by the flush inside)
                if is_write(n):
                    writes.append((gov_loop, acc_here))
                for fld in ('body', 'orelse', 'finalbody'):
                    sub = getattr(n, fld, None)
                    if isinstance(sub, list) and sub and isinstance(sub[0], ast.stmt):
                        walk(sub, gov_loop or iterates_guard(n), acc_here)
                for h in getattr(n, 'handlers', []):
                    walk(h.body, gov_loop, acc_here)
        walk(fnode.body, False, False)
        if writes and all(w[0] for w in writes):
            return 'loop'
        if writes and all(w[1] or w[0] for w in writes):
            return 'accumulate'
        if not writes:
            return 'accumulate'
        return None

    # ---- expressions ----------------------------------------------------------------------------------------------------------
    def is_self(self, node, env_):
        return isinstance(node, ast.Name) and node.id in env_['$self']

    def expr(self, node, st, f, env_, ctx, depth):
        if node is None:
            return
        where = f'{os.path.relpath(f.file, env.REPO)}:{getattr(node, "lineno", 0)}'
        if isinstance(node, ast.Call):
            fn = node.func
            for a in node.args:
                self.expr(a.value if isinstance(a, ast.Starred) else a, st, f, env_, ctx, depth)
            for kw in node.keywords:
                self.expr(kw.value, st, f, env_, ctx, depth)
            if isinstance(fn, ast.Attribute):
                recv = fn.value
                sup = isinstance(recv, ast.Call) and isinstance(recv.func, ast.Name) and recv.func.id == 'super'
                if self.is_self(recv, env_) or sup:
                    name = self.m.resolve(fn.attr, f.cls)
                    kw = {k.arg: self.const(k.value, env_) for k in node.keywords if k.arg}
                    if name == 'flush_cache':
                        self.flush(st, kw.get('keep_sssr', False), kw.get('keep_components', False))
                        self.obligations.append((f'{ctx}:flush@{where}', True))
                        return
                    if name == 'flush_stereo_cache':
                        for k in ('_chiral_morgan', '_MoleculeStereo__chiral_centers'):
                            st.cached.discard(k)
                            st.stale.discard(k)
                        return
                    callee = self.m.lookup(name, after=f.cls if sup else None)
                    if callee is not None:
                        if callee.key:                # cached method call
                            self.read_key(st, callee.key, ctx, where)
                            return
                        if name == 'calc_labels':
                            self._inline(callee, node, kw, st, f, env_, ctx, depth, where)
                            st.stale.discard(LABELS_KEY)
                            return
                        self._inline(callee, node, kw, st, f, env_, ctx, depth, where)
                        return
                    return
                # __dict__ operations on self
                if isinstance(recv, ast.Attribute) and recv.attr == '__dict__' and self.is_self(recv.value, env_):
                    if fn.attr in ('pop',) and node.args and isinstance(node.args[0], ast.Constant):
                        st.cached.discard(node.args[0].value)
                        st.stale.discard(node.args[0].value)
                    elif fn.attr == 'clear':
                        self.flush(st, False, False)
                    return
                # mutating dict method on an alias of atoms / bonds
                kind = self.alias_kind(recv, env_)
                if kind and fn.attr in MUTATING_DICT_METHODS:
                    self.write(st, {A_SET} if kind == 'ATOMS' else {B_TOPO, B_ORDER, B_SPECIAL}, ctx, where)
                self.expr(recv, st, f, env_, ctx, depth)
                return
            self.expr(fn, st, f, env_, ctx, depth)
            return
        if isinstance(node, ast.Attribute):
            if self.is_self(node.value, env_) and isinstance(node.ctx, ast.Load):
                name = self.m.resolve(node.attr, f.cls)
                callee = self.m.lookup(name)
                if callee is not None:
                    if callee.key and callee.kind == 'cached':
                        self.read_key(st, callee.key, ctx, where)
                    elif callee.kind == 'property':
                        self._inline(callee, None, {}, st, f, env_, ctx, depth, where)
                return
            self.expr(node.value, st, f, env_, ctx, depth)
            return
        if isinstance(node, ast.NamedExpr):
            self.expr(node.value, st, f, env_, ctx, depth)
            return
        if isinstance(node, (ast.Lambda,)):
            return
        for child in ast.iter_child_nodes(node):
            if isinstance(child, ast.expr):
                self.expr(child, st, f, env_, ctx, depth)
            elif isinstance(child, ast.comprehension):
                self.expr(child.iter, st, f, env_, ctx, depth)
                for i in child.ifs:
                    self.expr(i, st, f, env_, ctx, depth)
            elif isinstance(child, ast.keyword):
                self.expr(child.value, st, f, env_, ctx, depth)

    def _inline(self, callee, call, kw, st, f, env_, ctx, depth, where):
        if depth >= self.MAX_DEPTH:
            return
        cenv = self._bind(callee, {})
        if call is not None:
            names = [x.arg for x in callee.node.args.args][1:]
            for x, a in zip(names, call.args):
                v = self.const(a, env_)
                if v != 'unknown':
                    cenv[x] = v
                else:
                    cenv.pop(x, None)
        for k, v in kw.items():
            if v != 'unknown':
                cenv[k] = v
            else:
                cenv.pop(k, None)
        cenv['$in_transaction'] = env_.get('$in_transaction', False)
        outs = self.exec_body(callee.node.body, st.copy(), callee, cenv, ctx, depth + 1)
        if outs:
            merged = outs[0]
            for o in outs[1:]:
                merged.join(o)
            st.cached, st.stale = merged.cached, merged.stale

    # ---- stores ----------------------------------------------------------------------------------------------------------------
    def alias_kind(self, node, env_):
        al = env_['$aliases']
        if isinstance(node, ast.Name):
            return al.get(node.id)
        if isinstance(node, ast.Attribute) and node.attr in ('_atoms', '_bonds') and isinstance(node.value, ast.Name) and \
                (node.value.id in env_['$self'] or node.value.id in al.get('$maybe_self', ())):
            return 'ATOMS' if node.attr == '_atoms' else 'BONDS'
        if isinstance(node, ast.Subscript) and self.alias_kind(node.value, env_) == 'BONDS':
            return 'NGB'
        return None

    def track_alias(self, s, env_):
        al = env_['$aliases']
        v = s.value
        kind = self.alias_kind(v, env_)
        if isinstance(v, ast.Call) and isinstance(v.func, ast.Attribute) and v.func.attr == 'pop' and self.alias_kind(v.func.value, env_) == 'BONDS':
            kind = 'NGB'
        for t in s.targets:
            if isinstance(t, ast.Name):
                if kind:
                    al[t.id] = kind
                elif t.id in al:
                    del al[t.id]
                # u = self.copy() if copy else self
                if isinstance(v, ast.IfExp) and any(isinstance(x, ast.Name) and x.id == 'self' for x in (v.body, v.orelse)):
                    c = self.const(v.test, env_)
                    chosen = v.body if c is True else v.orelse if c is False else None
                    if chosen is None or (isinstance(chosen, ast.Name) and chosen.id == 'self'):
                        env_['$self'] = env_['$self'] | {t.id}

    def track_for(self, s, env_):
        al = env_['$aliases']
        it = s.iter
        if isinstance(it, ast.Call) and isinstance(it.func, ast.Attribute) and it.func.attr in ('items', 'values') and \
                self.alias_kind(it.func.value, env_) == 'BONDS':
            t = s.target
            tgt = t.elts[-1] if isinstance(t, ast.Tuple) else t
            if isinstance(tgt, ast.Name):
                al[tgt.id] = 'NGB'

    def store(self, t, st, f, env_, ctx, delete=False):
        where = f'{os.path.relpath(f.file, env.REPO)}:{getattr(t, "lineno", 0)}'
        if isinstance(t, (ast.Tuple, ast.List)):
            for e in t.elts:
                self.store(e, st, f, env_, ctx, delete)
            return
        if isinstance(t, ast.Attribute):
            if t.attr == '__dict__' and self.is_self(t.value, env_):
                st.cached, st.stale = set(self.all_keys), set()         # rollback: the snapshot's coherent cache is restored
                return
            if t.attr in ('_atoms', '_bonds', '_meta', '_name') and not self.is_self(t.value, env_):
                return                               # slot of another container (copy / substructure under construction)
            if t.attr in ATTR_WRITE:
                locs = self.store_override.get(ctx.split('/')[0], {}).get(t.attr, ATTR_WRITE[t.attr])
                self.write(st, set(locs), ctx, where, f.name)
            return
        if isinstance(t, ast.Subscript):
            kind = self.alias_kind(t.value, env_)
            if kind == 'ATOMS':
                self.write(st, {A_SET}, ctx, where)
            elif kind in ('BONDS', 'NGB'):
                self.write(st, {B_TOPO, B_ORDER, B_SPECIAL}, ctx, where)
            elif isinstance(t.value, ast.Attribute) and t.value.attr == '__dict__' and self.is_self(t.value.value, env_):
                if isinstance(t.slice, ast.Constant):
                    if delete:
                        st.cached.discard(t.slice.value)
                        st.stale.discard(t.slice.value)
                    else:
                        st.cached.add(t.slice.value)
                        st.stale.discard(t.slice.value)
            return
