"""Engine H (seed independence): every argument of hash() in the anchored files is built from ints, bools, None and tuples of those -
never from str / bytes / float / objects with identity hash - so no PYTHONHASHSEED-dependent value can reach an ordering decision or a
stored identifier.  A small structural type inference over the AST; declared facts: source annotations of parameters / properties and
the attribute table below (the setters' isinstance guards are the class invariants of Element, Bond, QueryBond, Dynamic*).
"""
import ast

from vlib import env

INT, BOOL, NONE, STR, FLOAT, UNK = 'int', 'bool', 'none', 'str', 'float', 'unknown'
OBJ_ELEMENT, OBJ_BOND = 'obj:atom', 'obj:bond'     # hashing these calls the class __hash__, which is a site of its own

ATTR = {
    'isotope': {INT, NONE}, 'atomic_number': {INT}, 'charge': {INT}, 'p_charge': {INT}, 'is_radical': {BOOL}, 'p_is_radical': {BOOL},
    'implicit_hydrogens': {INT, NONE}, 'p_implicit_hydrogens': {INT, NONE}, 'in_ring': {BOOL, NONE}, 'order': {INT, NONE}, 'p_order': {INT, NONE},
    'atomic_symbol': {STR}, 'neighbors': {INT}, 'hybridization': {INT}, 'heteroatoms': {INT}, 'explicit_hydrogens': {INT},
    'stereo': {BOOL, NONE}, 'x': {FLOAT}, 'y': {FLOAT}, 'name': {STR},
}
SELF_ATTR = {
    '_atoms': ('dict', frozenset({INT}), frozenset({OBJ_ELEMENT})), '_bonds': ('dict', frozenset({INT}), frozenset({('dict', frozenset({INT}), frozenset({OBJ_BOND}))})),
    'int_adjacency': ('dict', frozenset({INT}), frozenset({('dict', frozenset({INT}), frozenset({INT}))})),
    'atoms_order': ('dict', frozenset({INT}), frozenset({INT})), '_atom_identifiers': ('dict', frozenset({INT}), frozenset({INT})),
}


def T(*alts):
    return frozenset(alts)


def union(*ts):
    out = set()
    for t in ts:
        out |= set(t)
    return frozenset(out)


def elem(t):
    """element type of an iterable type"""
    out = set()
    for a in t:
        if isinstance(a, tuple):
            if a[0] == 'seq':
                out |= set(a[1])
            elif a[0] == 'tuple':
                for x in a[1]:
                    out |= set(x)
            elif a[0] == 'dict':
                out |= set(a[1])
            else:
                out.add(UNK)
        else:
            out.add(UNK if a != STR else STR)
    return frozenset(out)


def leaves(t, depth=0):
    """all leaf tags that take part in hashing a value of type t"""
    out = set()
    for a in t:
        if isinstance(a, tuple):
            if a[0] == 'seq':
                out |= leaves(a[1], depth + 1)
            elif a[0] == 'tuple':
                for x in a[1]:
                    out |= leaves(x, depth + 1)
            else:
                out.add(UNK)            # dicts / others are not hashable
        else:
            out.add(a)
    return out


def parse_annotation(node):
    s = ast.unparse(node) if node is not None else ''
    s = s.replace("'", '')
    if s in ('int',):
        return T(INT)
    if s.startswith('Optional[') and isinstance(node, ast.Subscript):
        return union(parse_annotation(node.slice), T(NONE))
    if s == 'bool':
        return T(BOOL)
    if s == 'str':
        return T(STR)
    if s.startswith('Dict[') or s.startswith('dict['):
        inner = node.slice
        if isinstance(inner, ast.Tuple) and len(inner.elts) == 2:
            return T(('dict', parse_annotation(inner.elts[0]), parse_annotation(inner.elts[1])))
    if s.startswith(('List[', 'Set[', 'Tuple[', 'Iterable[', 'list[', 'set[')):
        inner = node.slice
        if isinstance(inner, ast.Tuple):
            return T(('seq', union(*[parse_annotation(e) for e in inner.elts if not (isinstance(e, ast.Constant) and e.value is Ellipsis)])))
        return T(('seq', parse_annotation(inner)))
    return T(UNK)


class Typer:
    def __init__(self, fnode, cls_returns=None):
        self.env = {}
        self.cls_returns = cls_returns or {}
        a = fnode.args
        for x in a.args + a.kwonlyargs:
            if x.annotation is not None:
                self.env[x.arg] = parse_annotation(x.annotation)
        for n in ast.walk(fnode):        # single forward pass over simple assignments (flow-insensitive union)
            if isinstance(n, ast.Assign) and len(n.targets) == 1 and isinstance(n.targets[0], ast.Name):
                t = self.type_of(n.value)
                self.env[n.targets[0].id] = union(self.env.get(n.targets[0].id, T()), t) if n.targets[0].id in self.env else t

    def bind(self, target, t, env_):
        if isinstance(target, ast.Name):
            env_[target.id] = t
        elif isinstance(target, (ast.Tuple, ast.List)):
            parts = None
            for a in t:
                if isinstance(a, tuple) and a[0] == 'tuple' and len(a[1]) == len(target.elts):
                    parts = a[1] if parts is None else [union(p, q) for p, q in zip(parts, a[1])]
            for i, e in enumerate(target.elts):
                self.bind(e.value if isinstance(e, ast.Starred) else e, parts[i] if parts else T(UNK), env_)

    def type_of(self, n, env_=None):
        env_ = self.env if env_ is None else env_
        if isinstance(n, ast.Constant):
            v = n.value
            return T(BOOL if isinstance(v, bool) else INT if isinstance(v, int) else NONE if v is None else STR if isinstance(v, (str, bytes)) else FLOAT if isinstance(v, float) else UNK)
        if isinstance(n, ast.Name):
            if n.id == 'self':
                return T('obj:self')
            return env_.get(n.id, T(UNK))
        if isinstance(n, ast.Attribute):
            if isinstance(n.value, ast.Name) and n.value.id == 'self':
                if n.attr in SELF_ATTR:
                    return T(SELF_ATTR[n.attr])
                if n.attr in self.cls_returns and UNK not in leaves(self.cls_returns[n.attr]):
                    return self.cls_returns[n.attr]
            if n.attr in ATTR:
                return frozenset(ATTR[n.attr])
            return T(UNK)
        if isinstance(n, ast.Subscript):
            b = self.type_of(n.value, env_)
            out = set()
            for a in b:
                if isinstance(a, tuple) and a[0] == 'dict':
                    out |= set(a[2])
                elif isinstance(a, tuple) and a[0] in ('seq',):
                    out |= set(a[1])
                elif isinstance(a, tuple) and a[0] == 'tuple':
                    for x in a[1]:
                        out |= set(x)
                else:
                    out.add(UNK)
            return frozenset(out)
        if isinstance(n, (ast.Tuple, ast.List)):
            parts = []
            for e in n.elts:
                if isinstance(e, ast.Starred):
                    parts.append(elem(self.type_of(e.value, env_)))
                else:
                    parts.append(self.type_of(e, env_))
            return T(('tuple', tuple(parts)))
        if isinstance(n, ast.BoolOp):
            return union(*[self.type_of(v, env_) for v in n.values])
        if isinstance(n, ast.IfExp):
            return union(self.type_of(n.body, env_), self.type_of(n.orelse, env_))
        if isinstance(n, ast.BinOp):
            return union(self.type_of(n.left, env_), self.type_of(n.right, env_)) - {NONE} or T(INT)
        if isinstance(n, ast.Compare):
            return T(BOOL)
        if isinstance(n, (ast.GeneratorExp, ast.ListComp, ast.SetComp)):
            e2 = dict(env_)
            for g in n.generators:
                self.bind(g.target, elem(self.type_of(g.iter, e2)), e2)
            return T(('seq', self.type_of(n.elt, e2)))
        if isinstance(n, ast.DictComp):
            e2 = dict(env_)
            for g in n.generators:
                self.bind(g.target, elem(self.type_of(g.iter, e2)), e2)
            return T(('dict', self.type_of(n.key, e2), self.type_of(n.value, e2)))
        if isinstance(n, ast.Call):
            f = n.func
            if isinstance(f, ast.Name):
                if f.id in ('hash', 'int', 'len', 'sum', 'ord'):
                    return T(INT)
                if f.id in ('str', 'format', 'repr'):
                    return T(STR)
                if f.id in ('sorted', 'tuple', 'list', 'reversed', 'set', 'frozenset', 'iter') and n.args:
                    return T(('seq', elem(self.type_of(n.args[0], env_))))
                if f.id in ('min', 'max', 'next') and n.args:
                    return elem(self.type_of(n.args[0], env_))
                if f.id == 'range':
                    return T(('seq', T(INT)))
                if f.id == 'enumerate' and n.args:
                    return T(('seq', T(('tuple', (T(INT), elem(self.type_of(n.args[0], env_)))))))
                if f.id == 'bool':
                    return T(BOOL)
            if isinstance(f, ast.Attribute):
                b = self.type_of(f.value, env_)
                out = set()
                for a in b:
                    if isinstance(a, tuple) and a[0] == 'dict':
                        if f.attr == 'items':
                            out.add(('seq', T(('tuple', (a[1], a[2])))))
                        elif f.attr == 'values':
                            out.add(('seq', a[2]))
                        elif f.attr == 'keys':
                            out.add(('seq', a[1]))
                        elif f.attr == 'get':
                            out |= set(a[2]) | {NONE}
                        else:
                            out.add(UNK)
                    else:
                        out.add(UNK)
                if isinstance(f.value, ast.Name) and f.value.id == 'self' and f.attr in ('atoms',):
                    return T(('seq', T(('tuple', (T(INT), T(OBJ_ELEMENT))))))
                if isinstance(f.value, ast.Name) and f.value.id == 'self' and f.attr in self.cls_returns:
                    return self.cls_returns[f.attr]
                return frozenset(out) or T(UNK)
        return T(UNK)


def sites(rel):
    """all hash(...) call sites of a source file: (qualname, lineno, leaf tags of the argument, argument text)"""
    src = env.read(rel)
    tree = ast.parse(src)
    out = []

    def returns_of(cdef):
        r = {}
        for f in cdef.body:
            if isinstance(f, ast.FunctionDef) and f.returns is not None:
                r[f.name] = parse_annotation(f.returns)
        return r

    def visit(node, qual, cls_returns):
        for n in node.body:
            if isinstance(n, ast.ClassDef):
                visit(n, qual + [n.name], returns_of(n))
            elif isinstance(n, ast.FunctionDef):
                ty = Typer(n, cls_returns)
                for c in ast.walk(n):
                    if isinstance(c, ast.Call) and isinstance(c.func, ast.Name) and c.func.id == 'hash' and c.args:
                        # comprehension variables: re-type inside the enclosing comprehension chain
                        t = _type_in_context(ty, n, c.args[0])
                        out.append(('.'.join(qual + [n.name]), c.lineno, leaves(t), ast.unparse(c.args[0])))
    visit(tree, [], {})
    return out


def _type_in_context(ty, fnode, target):
    """type `target` with the comprehension variables of all enclosing comprehensions bound"""
    path = []

    def find(n, stack):
        if n is target:
            path.extend(stack)
            return True
        for ch in ast.iter_child_nodes(n):
            if find(ch, stack + [n]):
                return True
        return False
    find(fnode, [])
    e2 = dict(ty.env)
    for n in path:
        if isinstance(n, (ast.GeneratorExp, ast.ListComp, ast.SetComp, ast.DictComp)):
            for g in n.generators:
                ty.bind(g.target, elem(ty.type_of(g.iter, e2)), e2)
        elif isinstance(n, ast.For):
            ty.bind(n.target, elem(ty.type_of(n.iter, e2)), e2)
    return ty.type_of(target, e2)
