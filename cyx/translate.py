"""Engine X: mechanical Cython-subset -> Python translation of chython's three .pyx files (re-done on every run).

Dropped: cimport lines, @cython.* decorators, `cdef extern` blocks, declarations of Python-object variables.
Kept verbatim: every statement and expression of the function bodies.  Rewritten (syntactically, totally on these files):
  cdef packed struct S: ...        ->  S = _struct_type('S', [(field, ctype), ...])
  cdef T v = e / cdef T[n] a       ->  v = _wrap('T', e) / a = _carray('T', n)          (types recorded per function)
  <T> e, <T*> e                    ->  _apply(_CAST['T'], e)      (binds like a unary operator: implemented through `@`)
  &x[i]                            ->  _ptr(x, i)                 f = frexp(x, &e)  ->  f, e = frexp(x)
  sizeof(T)                        ->  sizeof('T')                {} (empty dict literal)  ->  _newdict()
  store to a C-typed name          ->  name = _wrap('T', value)   (truncate to width / sign-interpret; float->int toward zero)
  a / b  (C operands)              ->  _cdiv(a, b)                (cdivision: integer division for ints)
  for v in range(...) (typed v)    ->  the Python loop, with v = _wrap('T', v) as first body statement
"""
import ast
import io
import re
import tokenize

CTYPES = ['unsigned long long', 'unsigned short', 'unsigned char', 'unsigned int', 'long long', 'short', 'char', 'int',
          'double', 'bint', 'Py_ssize_t']
PYTYPES = ['object', 'bytes', 'dict', 'tuple', 'list']


def _split_top(s):
    parts, depth, cur = [], 0, ''
    for ch in s:
        if ch in '([':
            depth += 1
        if ch in ')]':
            depth -= 1
        if ch == ',' and depth == 0:
            parts.append(cur)
            cur = ''
        else:
            cur += ch
    parts.append(cur)
    return [p.strip() for p in parts if p.strip()]


def translate(src):
    raw = src.split('\n')
    lines = []
    k = 0
    while k < len(raw):
        ln = raw[k]
        if re.match(r'\s*(def|cdef)\s', ln) and ln.count('(') > ln.count(')'):
            while ln.count('(') > ln.count(')'):
                k += 1
                ln = ln.rstrip() + ' ' + raw[k].strip()
        lines.append(ln)
        k += 1
    out = []
    structs = {}
    ctypes = list(CTYPES)
    decls = {}
    cur = None
    for ln in lines:
        m = re.match(r'cdef packed struct (\w+):', ln)
        if m:
            ctypes.insert(0, m.group(1))
    tre = '(?:' + '|'.join(re.escape(t) for t in ctypes) + ')'
    pyre = '(?:' + '|'.join(PYTYPES) + ')'
    i = 0
    while i < len(lines):
        ln = lines[i]
        s = ln.strip()
        ind = ln[:len(ln) - len(ln.lstrip())]
        if re.match(r'(cimport |from \S+ cimport )', s) or s.startswith('@cython.'):
            i += 1
            continue
        if s.startswith('cdef extern from'):
            i += 1
            while i < len(lines) and (lines[i].startswith(' ') or not lines[i].strip()):
                i += 1
            continue
        m = re.match(r'cdef packed struct (\w+):', s)
        if m:
            name, fields = m.group(1), []
            i += 1
            while i < len(lines) and lines[i].startswith(' ') and lines[i].strip():
                fm = re.match(r'\s+(' + tre + r')\s*(\*?)\s*(\w+)', lines[i])
                fields.append((fm.group(3), fm.group(1) + ('*' if fm.group(2) else '')))
                i += 1
            structs[name] = fields
            out.append(f'{name} = _struct_type({name!r}, {fields!r})')
            continue
        m = re.match(r'(cdef\s+(?:' + tre + r'|void)\s+|def\s+)(\w+)\((.*)\)\s*:\s*$', s)
        if m and (s.startswith('def ') or s.startswith('cdef ')):
            fname, params, ptypes = m.group(2), [], {}
            for p in _split_top(m.group(3)):
                p = re.sub(r'\s+not None$', '', p)
                pm = re.match(r'(?:const\s+)?(' + tre + '|' + pyre + r')?\s*(\[::1\]|\*)?\s*(\w+)$', p)
                if not pm:
                    raise SyntaxError(f'cyx: cannot parse parameter {p!r}')
                params.append(pm.group(3))
                if pm.group(1) in ctypes:
                    ptypes[pm.group(3)] = pm.group(1) + ('[]' if pm.group(2) == '[::1]' else '*' if pm.group(2) else '')
            cur = fname
            decls[cur] = dict(ptypes)
            out.append(f'{ind}def {fname}({", ".join(params)}):')
            for p, t in ptypes.items():
                if not t.endswith('*') and not t.endswith('[]'):
                    out.append(f'{ind}    {p} = _wrap({t!r}, {p})')
                elif t.endswith('[]'):
                    out.append(f'{ind}    {p} = _view({t[:-2]!r}, {p})')
            i += 1
            continue
        m = re.match(r'cdef\s+(' + tre + '|' + pyre + r')\s*(.*)$', s)
        if m:
            t, rest = m.group(1), m.group(2).split('#')[0].strip()
            scope = decls.setdefault(cur if ind else '<module>', {})
            if t in PYTYPES:
                i += 1
                continue
            am = re.match(r'\[(\d+)\]\s*(\w+)$', rest)
            if am:
                scope[am.group(2)] = t + '[]'
                out.append(f'{ind}{am.group(2)} = _carray({t!r}, {am.group(1)})')
                i += 1
                continue
            for p in _split_top(rest):
                ptr = p.startswith('*')
                p = p.lstrip('* ')
                if '=' in p:
                    v, init = [x.strip() for x in p.split('=', 1)]
                else:
                    v, init = p, None
                scope[v] = t + ('*' if ptr else '')
                if init is not None:
                    out.append(f'{ind}{v} = {init}')
                elif t in structs and not ptr:
                    out.append(f'{ind}{v} = {t}()')
            i += 1
            continue
        out.append(ln)
        i += 1
    text = '\n'.join(out)

    def cast(mm):
        t = re.sub(r'\s+', ' ', mm.group(1).strip())
        return f'_CAST[{(t + ("*" if mm.group(2) else ""))!r}] @ '
    text = re.sub(r'<\s*(' + tre + r')\s*(\*?)\s*>', cast, text)
    text = re.sub(r'sizeof\(\s*(' + tre + r')\s*\)', lambda mm: f'sizeof({mm.group(1)!r})', text)
    # unary & (address-of)  ->  _ADDR @
    res, prev = [], None
    for tok in tokenize.generate_tokens(io.StringIO(text).readline):
        unary = prev is None or (prev.type == tokenize.OP and prev.string not in (')', ']')) or \
            prev.type in (tokenize.NEWLINE, tokenize.NL, tokenize.INDENT, tokenize.DEDENT)
        if tok.type == tokenize.OP and tok.string == '&' and unary:
            res.append((tokenize.NAME, '_ADDR'))
            res.append((tokenize.OP, '@'))
        else:
            res.append((tok.type, tok.string))
        if tok.type not in (tokenize.COMMENT, tokenize.NL):
            prev = tok
    text = tokenize.untokenize(res)
    return text, decls, structs


def _is_marker(node):
    return (isinstance(node, ast.Subscript) and isinstance(node.value, ast.Name) and node.value.id == '_CAST') or \
        (isinstance(node, ast.Name) and node.id == '_ADDR')


class Typer(ast.NodeTransformer):
    """wrap stores to C-typed names; rewrite '/', casts, address-of"""

    def __init__(self, decls):
        self.decls = decls
        self.mod = decls.get('<module>', {})
        self.scope = self.mod

    def visit_FunctionDef(self, node):
        old = self.scope
        self.scope = {**self.mod, **self.decls.get(node.name, {})}
        self.generic_visit(node)
        self.scope = old
        return node

    def ctype(self, name):
        t = self.scope.get(name)
        if t and not t.endswith('*') and not t.endswith('[]') and t in CTYPES:
            return t

    @staticmethod
    def wrap(t, v):
        return ast.Call(ast.Name('_wrap', ast.Load()), [ast.Constant(t), v], [])

    def _post(self, names):
        return [ast.Assign([ast.Name(n, ast.Store())], self.wrap(self.ctype(n), ast.Name(n, ast.Load()))) for n in names]

    def visit_Assign(self, node):
        # f = frexp(x, &e)  ->  f, e = frexp(x)
        v = node.value
        if isinstance(v, ast.Call) and isinstance(v.func, ast.Name) and v.func.id == 'frexp' and len(v.args) == 2 and \
                isinstance(v.args[1], ast.BinOp) and isinstance(v.args[1].op, ast.MatMult) and _is_marker(v.args[1].left) and \
                isinstance(v.args[1].right, ast.Name) and len(node.targets) == 1 and isinstance(node.targets[0], ast.Name):
            e = v.args[1].right.id
            node = ast.Assign([ast.Tuple([node.targets[0], ast.Name(e, ast.Store())], ast.Store())],
                              ast.Call(v.func, [self.visit(v.args[0])], []))
            names = [t.id for t in node.targets[0].elts if self.ctype(t.id)]
            return [node] + self._post(names)
        self.generic_visit(node)
        if len(node.targets) == 1:
            tg = node.targets[0]
            if isinstance(tg, ast.Name) and self.ctype(tg.id):
                node.value = self.wrap(self.ctype(tg.id), node.value)
                return node
            if isinstance(tg, ast.Tuple):
                return [node] + self._post([e.id for e in tg.elts if isinstance(e, ast.Name) and self.ctype(e.id)])
            return node
        return [node] + self._post([tg.id for tg in node.targets if isinstance(tg, ast.Name) and self.ctype(tg.id)])

    def visit_AugAssign(self, node):
        self.generic_visit(node)
        tg = node.target
        if isinstance(tg, ast.Name) and self.ctype(tg.id):
            val = ast.BinOp(ast.Name(tg.id, ast.Load()), node.op, node.value)
            if isinstance(node.op, ast.Div):
                val = ast.Call(ast.Name('_cdiv', ast.Load()), [val.left, val.right], [])
            return ast.Assign([ast.Name(tg.id, ast.Store())], self.wrap(self.ctype(tg.id), val))
        return node

    def visit_For(self, node):
        self.generic_visit(node)
        names = [node.target] if isinstance(node.target, ast.Name) else \
            [e for e in getattr(node.target, 'elts', []) if isinstance(e, ast.Name)]
        node.body = self._post([e.id for e in names if self.ctype(e.id)]) + node.body
        return node

    def visit_Dict(self, node):
        self.generic_visit(node)
        if not node.keys:       # {}  ->  _newdict()   (dict in the concrete runtime, association list in the symbolic one)
            return ast.Call(ast.Name('_newdict', ast.Load()), [], [])
        return node

    def visit_BinOp(self, node):
        if isinstance(node.op, ast.MatMult):
            # left-assoc chain  m1 @ m2 @ ... @ x  with markers m_i  ->  apply(m1, apply(m2, ... x))
            chain, cur = [], node
            while isinstance(cur, ast.BinOp) and isinstance(cur.op, ast.MatMult):
                chain.append(cur.right)
                cur = cur.left
            chain.append(cur)
            chain.reverse()
            if all(_is_marker(c) for c in chain[:-1]):
                x = self.visit(chain[-1])
                for mk in reversed(chain[:-1]):
                    if isinstance(mk, ast.Name):     # address-of
                        if isinstance(x, ast.Subscript):
                            x = ast.Call(ast.Name('_ptr', ast.Load()), [x.value, x.slice], [])
                        else:
                            x = ast.Call(ast.Name('_addr', ast.Load()), [x], [])
                    else:
                        x = ast.Call(ast.Name('_apply', ast.Load()), [mk, x], [])
                return x
        self.generic_visit(node)
        if isinstance(node.op, ast.Div):
            return ast.Call(ast.Name('_cdiv', ast.Load()), [node.left, node.right], [])
        return node


def build(src, filename='<pyx>'):
    """-> (ast.Module, translated text, decls, structs)"""
    text, decls, structs = translate(src)
    tree = ast.parse(text, filename=filename)
    tree = Typer(decls).visit(tree)
    ast.fix_missing_locations(tree)
    return tree, text, decls, structs


DROPPED = ['cimport lines', '@cython.* decorators', 'cdef extern blocks', 'declarations of Python-object variables (cdef dict/list/object …)',
           'PyMem_Free (no-op)', 'C integer types become Python ints wrapped at every store (_wrap)']
