"""Concrete C runtime for the translated .pyx modules: fixed-width integers wrapped at stores, typed arrays, typed pointers into
byte buffers (little-endian, packed structs: the layout `struct` produces on this platform), libc helpers."""
import math
import struct as _struct

BITS = {'unsigned char': (8, False), 'char': (8, True), 'unsigned short': (16, False), 'short': (16, True),
        'unsigned int': (32, False), 'int': (32, True), 'unsigned long long': (64, False), 'long long': (64, True),
        'bint': (32, True), 'Py_ssize_t': (64, True)}
SIZES = {k: v[0] // 8 for k, v in BITS.items()}
SIZES['double'] = 8
STRUCTS = {}          # name -> [(field, ctype)]


def _wrap(t, v):
    if t == 'double':
        return float(v)
    if t == 'bint':
        return 1 if v else 0
    bits, signed = BITS[t]
    if isinstance(v, float):
        v = int(v)            # C conversion truncates toward zero
    v &= (1 << bits) - 1
    if signed and v >> (bits - 1):
        v -= 1 << bits
    return v


def sizeof(t):
    if t in STRUCTS:
        return sum(sizeof(ft.rstrip('*')) if not ft.endswith('*') else 8 for _, ft in STRUCTS[t])
    return SIZES[t]


class StructVal:
    def __init__(self, tname, **kw):
        object.__setattr__(self, '_t', tname)
        for f, ft in STRUCTS[tname]:
            object.__setattr__(self, f, kw.get(f, None if ft.endswith('*') else 0))

    def __setattr__(self, k, v):
        ft = dict(STRUCTS[self._t])[k]
        object.__setattr__(self, k, v if ft.endswith('*') or ft in STRUCTS else _wrap(ft, v))


def _struct_type(name, fields):
    STRUCTS[name] = [tuple(f) for f in fields]
    return lambda **kw: StructVal(name, **kw)


class CArray:
    def __init__(self, t, n, data=None):
        self.t = t
        self.d = data if data is not None else [0] * n

    def __getitem__(self, i):
        if isinstance(i, slice):
            return bytes(self.d[i])
        return self.d[i]

    def __setitem__(self, i, v):
        if isinstance(i, slice):
            self.d[i] = [_wrap(self.t, x) for x in v]
        else:
            self.d[i] = _wrap(self.t, v)

    def __len__(self):
        return len(self.d)

    def __bool__(self):
        return True


def _carray(t, n):
    return CArray(t, n)


def _view(t, x):
    """typed memoryview parameter (const T[::1])"""
    return x


class TypedPtr:
    """pointer of element type t into a byte buffer (bytes) or a CArray at byte offset off"""

    def __init__(self, buf, off, t):
        self.buf, self.off, self.t = buf, off, t

    def __add__(self, n):
        return TypedPtr(self.buf, self.off + n * sizeof(self.t), self.t)

    def _bytes(self, off, n):
        if isinstance(self.buf, CArray):
            if SIZES.get(self.buf.t) != 1:
                raise NotImplementedError('pointer into non-byte array')
            return bytes(self.buf.d[off:off + n])
        return bytes(self.buf[off:off + n])

    def _scalar(self, off, t):
        bits, signed = BITS[t]
        return int.from_bytes(self._bytes(off, bits // 8), 'little', signed=signed)

    def __getitem__(self, i):
        off = self.off + i * sizeof(self.t)
        if self.t in STRUCTS:
            kw = {}
            for f, ft in STRUCTS[self.t]:
                if ft.endswith('*'):
                    raise NotImplementedError('pointer field inside a buffer struct')
                kw[f] = self._scalar(off, ft)
                off += sizeof(ft)
            return StructVal(self.t, **kw)
        if isinstance(self.buf, CArray) and self.buf.t == self.t:
            return self.buf.d[off // sizeof(self.t)]
        return self._scalar(off, self.t)

    def __setitem__(self, i, v):
        if not isinstance(self.buf, CArray) or self.t in STRUCTS or sizeof(self.buf.t) != sizeof(self.t):
            raise NotImplementedError('store through reinterpreted pointer')
        self.buf[self.off // sizeof(self.t) + i] = v

    def __bool__(self):
        return True


def _ptr(x, i):
    """&x[i]"""
    if isinstance(x, TypedPtr):
        return x + i
    if isinstance(x, CArray):
        return TypedPtr(x, i * sizeof(x.t), x.t)
    return TypedPtr(x, i, 'unsigned char')       # bytes / memoryview of unsigned char


def _addr(x):
    raise NotImplementedError('address-of a scalar')


class _Cast:
    def __getitem__(self, t):
        return ('cast', t)


_CAST = _Cast()


def _apply(f, x):
    t = f[1]
    if t.endswith('*'):
        et = t[:-1].strip()
        if isinstance(x, tuple) and x[0] == 'malloc':
            return CArray(et, x[1] // sizeof(et))
        if isinstance(x, TypedPtr):
            return TypedPtr(x.buf, x.off, et)
        raise NotImplementedError(f'cast {t} of {x!r}')
    return _wrap(t, x)


def PyMem_Malloc(nbytes):
    return ('malloc', nbytes)


def PyMem_Free(x):
    pass


def _PyDict_NewPresized(n):
    return {}


def _newdict():
    return {}


def memset(arr, v, n):
    for i in range(min(len(arr.d), n // sizeof(arr.t))):
        arr.d[i] = v


def _cdiv(a, b):
    if isinstance(a, float) or isinstance(b, float):
        return a / b
    q = abs(a) // abs(b)          # C: truncation toward zero
    return q if (a >= 0) == (b >= 0) else -q


def ldexp(x, e):
    return math.ldexp(x, e)


def frexp(x):
    return math.frexp(x)


def namespace():
    return {k: v for k, v in globals().items() if not k.startswith('__')}
