"""Symbolic C runtime for the translated .pyx modules (engine X under engine P): fixed-width wrap on z3 bit-vectors, arrays with
symbolic indices/stores (read-over-write If chains), association lists instead of dicts (keys may be symbolic atom numbers)."""
import z3

from pysym import SymInt, SymBool, bv, W, zbool
from pysym.core import Ctx
from . import runtime as crt

BITS = crt.BITS


def s_wrap(t, v):
    if isinstance(v, SymBool):
        v = SymInt(bv(v))
    if not isinstance(v, SymInt):
        return crt._wrap(t, v)
    if t == 'bint':
        return SymInt(z3.If(v.z != 0, z3.BitVecVal(1, W), z3.BitVecVal(0, W)))
    if t == 'double':
        raise TypeError('symbolic double')
    bits, signed = BITS[t]
    m = v.z & z3.BitVecVal((1 << bits) - 1, W)
    if signed:
        sb = z3.BitVecVal(1 << (bits - 1), W)
        m = (m ^ sb) - sb
    m = z3.simplify(m)
    return m.as_signed_long() if z3.is_bv_value(m) else SymInt(m)


class SArr:
    """typed array: concrete base table + ordered symbolic writes"""

    def __init__(self, t, n, init=None):
        self.t, self.n = t, n
        self.base = dict(enumerate(init)) if init else {}
        self.writes = []

    def __len__(self):
        return self.n

    def __setitem__(self, i, v):
        if isinstance(i, slice):
            for k, x in enumerate(v):
                self.base[k] = crt._wrap(self.t, x)
            return
        v = s_wrap(self.t, v)
        if not isinstance(i, SymInt) and not self.writes:
            self.base[i] = v          # concrete index, no pending symbolic writes: plain update
        else:
            self.writes.append((i, v))

    def __getitem__(self, i):
        if isinstance(i, slice):
            return [self[k] for k in range(*i.indices(self.n))]
        if isinstance(i, SymInt):
            d = z3.BitVecVal(0, W)
            for k, x in self.base.items():
                d = z3.If(i.z == k, bv(x), d)
            res = d
        else:
            res = bv(self.base.get(i, 0))
        for j, v in self.writes:
            res = z3.If(bv(j) == bv(i), bv(v), res)
        r = z3.simplify(res)
        return r.as_signed_long() if z3.is_bv_value(r) else SymInt(r)

    def __bool__(self):
        return True


class SPtr:
    def __init__(self, arr, off):
        self.arr, self.off = arr, off

    def __getitem__(self, i):
        return self.arr[self.off + i]

    def __setitem__(self, i, v):
        self.arr[self.off + i] = v

    def __add__(self, n):
        return SPtr(self.arr, self.off + n)


class AList:
    """insertion-ordered association list; lookup by identity first, then by == (forks when keys are symbolic)"""

    def __init__(self, pairs=()):
        self.p = list(pairs)

    def items(self):
        return iter(list(self.p))

    def values(self):
        return iter([v for _, v in self.p])

    def keys(self):
        return [k for k, _ in self.p]

    def __len__(self):
        return len(self.p)

    def __iter__(self):
        return iter([k for k, _ in self.p])

    def __getitem__(self, k):
        for a, b in self.p:
            if a is k:
                return b
        for a, b in self.p:
            if a == k:
                return b
        raise KeyError(k)

    def __setitem__(self, k, v):
        for idx, (a, _) in enumerate(self.p):
            if a is k:
                self.p[idx] = (a, v)
                return
        self.p.append((k, v))

    def __contains__(self, k):
        return any(a is k for a, _ in self.p) or any(bool(a == k) for a, _ in self.p)


class ElemTable:
    """elements[Z] for symbolic Z: a stub class remembering Z (the real table is checked by the C18 table lemma)"""

    def __init__(self, real):
        self.real = real

    def __getitem__(self, z):
        if isinstance(z, SymInt):
            return type('E', (), {'_z': z, '__slots__': ('_stereo', '_isotope', '_xy', '_implicit_hydrogens', '_charge', '_is_radical')})
        return self.real[z]


class StubMol:
    def __init__(self):
        self._atoms = AList()
        self._bonds = AList()


def s_cdiv(a, b):
    """C integer division (truncation toward zero) on proxies; true division for floats"""
    if not isinstance(a, (SymInt, SymBool)) and not isinstance(b, (SymInt, SymBool)):
        return crt._cdiv(a, b)
    az, bz = bv(a), bv(b)
    if isinstance(b, int) and b > 0 and b & (b - 1) == 0:        # power of two: shifts instead of a 128-bit divider
        k = b.bit_length() - 1
        from pysym.core import _side
        _side(az >= 0)           # obligation: the dividend is non-negative, so C truncation = logical shift
        return SymInt(z3.LShR(az, k))
    if Ctx.cur is not None and Ctx.cur.decide(bz == 0):
        raise ZeroDivisionError('C division by zero')
    return SymInt(az / bz)


def s_cmod(a, b):
    raise NotImplementedError


def namespace(extra=None):
    g = crt.namespace()
    g['_wrap'] = s_wrap
    g['_cdiv'] = s_cdiv
    g['_carray'] = lambda t, n: SArr(t, n)
    g['_newdict'] = AList
    g['_view'] = lambda t, x: x

    def _apply(f, x):
        t = f[1]
        if t.endswith('*'):
            et = t[:-1].strip()
            if isinstance(x, tuple) and x[0] == 'malloc':
                n = x[1]
                if isinstance(n, SymInt):
                    n = int(n)
                return SArr(et, n // crt.sizeof(et))
            raise NotImplementedError(f'symbolic cast {t}')
        return s_wrap(t, x)
    g['_apply'] = _apply
    g['_ptr'] = lambda x, i: SPtr(x, i)
    g['memset'] = lambda arr, v, n: None
    if extra:
        g.update(extra)
    return g


def load(rel, extra=None):
    """translated module executed in the symbolic runtime -> namespace dict"""
    from vlib import env
    from . import translate
    tree, text, decls, structs = translate.build(env.read(rel), filename=env.repo_path(rel))
    g = namespace(extra)
    g['__name__'] = 'cyx_sym:' + rel
    exec(compile(tree, env.repo_path(rel), 'exec'), g)
    if 'elements' in g and isinstance(g['elements'], list):
        g['elements'] = ElemTable(g['elements'])
    if 'common_isotopes' in g and isinstance(g['common_isotopes'], crt.CArray):
        g['common_isotopes'] = SArr('short', len(g['common_isotopes'].d), g['common_isotopes'].d)
    if 'MoleculeContainer' in g:
        g['MoleculeContainer'] = StubMol
    return g, tree
