"""Translate the three .pyx sources of the tree under verification and install them under their real module names, so that the
real Python wrappers (MoleculeContainer.pack/unpack, QueryIsomorphism.get_mapping's import switch) run unchanged."""
import importlib
import sys
import types

from vlib import env
from . import runtime, translate

MODULES = {
    'chython.containers._pack_v2': 'chython/containers/_pack_v2.pyx',
    'chython.containers._unpack_v0v2': 'chython/containers/_unpack_v0v2.pyx',
    'chython.algorithms._isomorphism': 'chython/algorithms/_isomorphism.pyx',
}
_done = False


def load(rel, name=None, ns=None):
    """translated module namespace (dict) for a .pyx path relative to the repo"""
    src = env.read(rel)
    tree, text, decls, structs = translate.build(src, filename=env.repo_path(rel))
    g = runtime.namespace()
    if ns:
        g.update(ns)
    g['__name__'] = name or rel
    exec(compile(tree, env.repo_path(rel), 'exec'), g)
    return g, tree, decls


def inject():
    global _done
    if _done:
        return
    import chython  # noqa
    for name, rel in MODULES.items():
        g, _, _ = load(rel, name)
        mod = types.ModuleType(name)
        mod.__dict__.update(g)
        mod.__file__ = env.repo_path(rel)
        sys.modules[name] = mod
        parent, _, leaf = name.rpartition('.')
        setattr(importlib.import_module(parent), leaf, mod)
    _done = True
